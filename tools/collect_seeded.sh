#!/bin/bash
# copy finished sub-agent outputs /tmp/wt/<ID>/_out/<k> to /verif/seeded/<ID>-<round><k> and evaluate the new ones
# usage: collect_seeded.sh <round-tag e.g. r2-> ids...
cd /verif
tag=$1; shift
for id in "$@"; do
  for k in 1 2 3; do
    src=/tmp/wt/$id/_out/$k
    dst=seeded/$id-$tag$k
    if [ -f $src/patch.diff ] && [ -f $src/demo.py ] && [ -f $src/meta.json ] && [ ! -d $dst ]; then
      mkdir -p $dst; cp $src/patch.diff $src/demo.py $src/meta.json $dst/
      tools/seeded.py $dst 2>&1 | /venv/bin/python -c "
import sys,json
d=json.load(sys.stdin); print(d['dir'].split('/')[-1], 'confirmed' if d['confirmed'] else 'NOT-CONFIRMED', 'detected_by', d['detected_by'])"
    fi
  done
done
