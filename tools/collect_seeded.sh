#!/bin/bash
# copy finished sub-agent outputs /tmp/wt/<ID>/_out/<k> to /verif/seeded/<ID>-<k> and evaluate the new ones
cd /verif
for id in "$@"; do
  for k in 1 2; do
    src=/tmp/wt/$id/_out/$k
    dst=seeded/$id-$k
    if [ -f $src/patch.diff ] && [ -f $src/demo.py ] && [ -f $src/meta.json ] && [ ! -d $dst ]; then
      mkdir -p $dst; cp $src/patch.diff $src/demo.py $src/meta.json $dst/
      tools/seeded.py $dst 2>&1 | tail -12
    fi
  done
done
