#!/venv/bin/python
"""Markdown table of /verif/seeded/*/meta.json (for DESIGN.md 10.7)."""
import glob
import json
import os
rows = []
for d in sorted(glob.glob('/verif/seeded/*/meta.json')):
    m = json.load(open(d))
    ev = m.get('evaluation', {})
    name = os.path.basename(os.path.dirname(d))
    det = ev.get('detected_by', [])
    first = ''
    for p in det:
        first = ev['checks'][p]['first'].split('\n')[-1].strip().split(':')[0][:60]
        break
    rows.append('| %s | %s | %s | %s | %s |' % (name, (m.get('title') or '')[:110].replace('|', '/'),
                                               (m.get('needs_to_manifest') or '')[:150].replace('|', '/').replace('\n', ' '),
                                               'yes' if ev.get('confirmed') else 'NO', (', '.join(det) + (' (' + first + ')' if first else '')) or ('**' + (m.get('verdict_note') or 'missed').split(':')[0] + '**')))
print('| id | change | needs, in order to manifest | confirmed by me | caught by |')
print('|---|---|---|---|---|')
print('\n'.join(rows))
