#!/venv/bin/python
"""Evaluate one seeded change: confirm it (tests pass, demo fails with / passes without) in a scratch worktree of
/repo, then run checks against that worktree (VERIF_REPO), and record what was run in meta.json.
usage: seeded.py <seeded-dir> [check ids, default = meta.property] [--all]"""
import json
import os
import shutil
import subprocess
import sys
import tempfile

VERIF = os.path.dirname(os.path.dirname(os.path.abspath(__file__)))
ALL = ['C02', 'C03', 'C04', 'C05', 'C06', 'C07', 'C08', 'C12', 'C13', 'C14', 'C15', 'C18', 'C20']


def sh(cmd, cwd=None, env=None, timeout=1800):
    p = subprocess.run(cmd, shell=True, cwd=cwd, env=env, capture_output=True, text=True, timeout=timeout)
    return p.returncode, p.stdout + p.stderr


def main():
    d = os.path.abspath(sys.argv[1])
    meta = json.load(open(os.path.join(d, 'meta.json')))
    # (meta 'also_checks': neighbouring properties whose checks own the clause that the change happens to break as well)
    ids = [a for a in sys.argv[2:] if not a.startswith('--')] or [meta['property']] + list(meta.get('also_checks', []))
    if '--all' in sys.argv:
        ids = ALL
    wt = tempfile.mkdtemp(prefix='seedeval_', dir='/tmp')
    os.rmdir(wt)
    rc, out = sh('git -C /repo worktree add -q --detach %s HEAD' % wt)
    assert rc == 0, out
    res = {'repo_head': sh('git -C /repo log --format=%h -1')[1].strip()}
    try:
        shutil.copy(os.path.join(d, 'demo.py'), os.path.join(wt, '_demo.py'))
        rc, out = sh('/venv/bin/python _demo.py', cwd=wt)
        res['demo_without_change'] = {'exit': rc, 'tail': out.strip()[-200:]}
        rc, out = sh('git apply %s' % os.path.join(d, 'patch.diff'), cwd=wt)
        if rc != 0:
            # the repository moved on since the change was written (a later fix: commit touches nearby lines): 3-way merge
            rc, out = sh('git apply --3way %s' % os.path.join(d, 'patch.diff'), cwd=wt)
            res['applied_with_3way'] = rc == 0
        res['patch_applies'] = rc == 0
        if rc != 0:
            res['apply_error'] = out[-300:]
            raise SystemExit('patch does not apply to /repo HEAD (rebase it): ' + d)
        rc, out = sh('/venv/bin/python -m pytest -q -p no:cacheprovider 2>&1 | tail -1', cwd=wt)
        res['baseline_tests_with_change'] = out.strip()
        rc, out = sh('/venv/bin/python _demo.py', cwd=wt)
        res['demo_with_change'] = {'exit': rc, 'tail': out.strip()[-300:]}
        res['checks'] = {}
        env = dict(os.environ)
        env['VERIF_REPO'] = wt
        env.setdefault('VERIF_MAX_REPORT', '1')      # evaluation only needs to know whether the check alarms
        env.setdefault('VERIF_SHRINK_WALL', '8')
        for pid in ids:
            rc, out = sh('/venv/bin/python run.py check %s --tier quick' % pid, cwd=VERIF, env=env)
            lines = [l for l in out.splitlines() if l.startswith('VIOLATION') or l.startswith('HARNESS')]
            first = ''
            for i, l in enumerate(out.splitlines()):
                if l.startswith('VIOLATION'):
                    first = '\n'.join(out.splitlines()[i:i + 2])[:600]
                    break
            res['checks'][pid] = {'exit': rc, 'violations': len([l for l in lines if l.startswith('VIOLATION')]), 'first': first,
                                  'harness': [l[:300] for l in lines if l.startswith('HARNESS')]}
    finally:
        sh('git -C /repo worktree remove --force %s' % wt)
    confirmed = (res.get('patch_applies') and '69 passed' in res.get('baseline_tests_with_change', '') and
                 res['demo_without_change']['exit'] == 0 and res['demo_with_change']['exit'] != 0)
    res['confirmed'] = bool(confirmed)
    res['detected_by'] = [p for p, r in res.get('checks', {}).items() if r['exit'] == 1]
    meta['evaluation'] = res
    json.dump(meta, open(os.path.join(d, 'meta.json'), 'w'), indent=1)
    print(json.dumps({'dir': d, 'confirmed': res['confirmed'], 'detected_by': res['detected_by'],
                      'checks': {p: (r['exit'], r['first'][:200]) for p, r in res.get('checks', {}).items()}}, indent=1))


if __name__ == '__main__':
    main()
