#!/bin/bash
# every check's thorough tier once (registered commands), with wall time
cd "$(dirname "$0")/.."
for p in ${@:-C02 C03 C04 C05 C06 C07 C08 C12 C13 C14 C15 C18 C20}; do
  s=$(date +%s)
  out=$(timeout 3000 /venv/bin/python run.py check $p --tier thorough 2>&1); rc=$?
  e=$(date +%s)
  echo "$p thorough rc=$rc wall=$((e-s))s $(echo "$out" | grep 'thorough seed' | cut -c1-140)"
  if [ $rc -ne 0 ]; then echo "$out" | grep -v "^  probes\|^  faults" | head -20; fi
done
