#!/bin/bash
# For each fixed finding: in a SCRATCH worktree of /repo revert its fix commit, replay the reproducer there (must fail), remove it.
set -u
cd /verif
/venv/bin/python - <<'PY' > /tmp/_fixed.txt
import json
for k in json.load(open('/verif/known_findings.json'))['findings']:
    if k['status']=='fixed': print(k['id'],k['commit'],k['reproducer'],k['signature'].replace(' ','_'))
PY
while read id commit rep sig; do
  wt=$(mktemp -d /tmp/revchk_XXXX); rmdir $wt
  git -C /repo worktree add -q --detach $wt HEAD
  if git -C $wt revert --no-commit $commit >/dev/null 2>&1; then
    out=$(VERIF_REPO=$wt /venv/bin/python run.py replay $rep --expect "$sig" | tail -2 | tr '\n' ' ')
    echo "$id $commit reverted -> $out" | cut -c1-200
  else
    echo "$id: revert of $commit does not apply cleanly on HEAD (later commits touch the same lines)"
  fi
  git -C /repo worktree remove --force $wt
done < /tmp/_fixed.txt
rm -f /tmp/_fixed.txt
