#!/bin/bash
# For each fixed finding: revert its fix commit in /repo (working tree only), replay the reproducer (must fail), restore.
set -u
cd /verif
/venv/bin/python - <<'PY' > /tmp/_fixed.txt
import json
for k in json.load(open('/verif/known_findings.json'))['findings']:
    if k['status']=='fixed': print(k['id'],k['commit'],k['reproducer'],k['signature'].replace(' ','_'))
PY
while read id commit rep sig; do
  test -z "$(git -C /repo status --porcelain)" || { echo "/repo dirty"; exit 2; }
  git -C /repo revert --no-commit $commit >/dev/null 2>&1 || { echo "$id: revert failed"; git -C /repo revert --abort 2>/dev/null; git -C /repo reset -q --hard; continue; }
  out=$(/venv/bin/python run.py replay $rep --expect "$sig" | tail -2 | tr '\n' ' ')
  git -C /repo revert --abort 2>/dev/null; git -C /repo reset -q --hard
  echo "$id $commit reverted -> $out" | cut -c1-200
done < /tmp/_fixed.txt
rm -f /tmp/_fixed.txt
