#!/bin/bash
# re-evaluate every seeded change with the current checks (owning property's quick tier)
cd /verif
for d in seeded/*/; do
  d=${d%/}
  tools/seeded.py $d 2>&1 | /venv/bin/python -c "
import sys,json
try:
    d=json.load(sys.stdin); print(d['dir'].split('/')[-1], 'confirmed' if d['confirmed'] else 'NOT-CONFIRMED', 'detected_by', d['detected_by'])
except Exception as e:
    print('ERR', e)"
done
