#!/bin/bash
# re-evaluate a slice of the seeded changes: reeval_part.sh <k> <n>  (every n-th directory starting at k)
cd /verif
i=0
for d in seeded/*/; do
  d=${d%/}
  if [ $((i % $2)) -eq $1 ]; then
    tools/seeded.py $d 2>&1 | /venv/bin/python -c "
import sys,json
try:
    d=json.load(sys.stdin); print(d['dir'].split('/')[-1], 'confirmed' if d['confirmed'] else 'NOT-CONFIRMED', 'detected_by', d['detected_by'])
except Exception as e:
    print('ERR', e)"
  fi
  i=$((i+1))
done
