#!/venv/bin/python
"""List distinct violation signatures of a check over N runs (no shrinking). usage: survey.py C07 2000 [tier]"""
import collections
import os
import sys
sys.path.insert(0, '/verif')
sys.path.insert(0, '/repo')
os.environ.setdefault('PYTHONHASHSEED', '0')
from concurrent.futures import ProcessPoolExecutor
from simkd import runner


def work(a):
    pid, lo, hi, tier = a
    prop = runner.load_prop(pid)
    c = collections.Counter()
    ex = {}
    for i in range(lo, hi):
        scn = runner.gen(prop, 0, tier, i)
        res = prop.execute(scn)
        for v in res['violations']:
            k = runner.vkey(v)
            c[k] += 1
            ex.setdefault(k, (i, v['detail'][:300]))
    return c, ex


if __name__ == '__main__':
    pid, n = sys.argv[1], int(sys.argv[2])
    tier = sys.argv[3] if len(sys.argv) > 3 else 'quick'
    step = max(1, n // 64)
    tot = collections.Counter()
    exs = {}
    with ProcessPoolExecutor(16) as ex:
        for c, e in ex.map(work, [(pid, lo, min(n, lo + step), tier) for lo in range(0, n, step)]):
            tot.update(c)
            for k, v in e.items():
                exs.setdefault(k, v)
    for k, v in sorted(tot.items()):
        print(v, k, exs[k])
