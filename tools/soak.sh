#!/bin/bash
# Many VERIF_SEED values of every check's quick tier (false-alarm hunt). usage: soak.sh <first-seed> <last-seed> [ids...]
first=$1; last=$2; shift 2
ids=${@:-C02 C03 C04 C05 C06 C07 C08 C12 C13 C14 C15 C18 C20}
cd "$(dirname "$0")/.."
for s in $(seq $first $last); do
  for p in $ids; do
    out=$(VERIF_SEED=$s timeout 900 /venv/bin/python run.py check $p --tier quick 2>&1); rc=$?
    echo "seed=$s $p rc=$rc $(echo "$out" | grep -c VIOLATION) viol; $(echo "$out" | grep 'quick seed' | cut -c1-90)"
    if [ $rc -ne 0 ]; then echo "$out" | grep -v "^  probes\|^  faults" | head -20; fi
  done
done
