#!/venv/bin/python
"""Sensitivity helper: apply one textual mutation to /repo, run the baseline tests and a check, always revert.
usage: mut.py <check-id[,id..]> <relative-file> <old> <new> [runs]"""
import os
import subprocess
import sys

ids, rel, old, new = sys.argv[1:5]
runs = sys.argv[5] if len(sys.argv) > 5 else ''
path = os.path.join('/repo', rel)
src = open(path).read()
assert src.count(old) >= 1, 'old text not found'
assert subprocess.run(['git', '-C', '/repo', 'status', '--porcelain'], capture_output=True, text=True).stdout.strip() == '', '/repo dirty'
try:
    open(path, 'w').write(src.replace(old, new, 1))
    t = subprocess.run('cd /repo && /venv/bin/python -m pytest -q -p no:cacheprovider -x 2>&1 | tail -1', shell=True, capture_output=True, text=True)
    print('baseline tests:', t.stdout.strip())
    for pid in ids.split(','):
        env = dict(os.environ)
        if runs:
            env['VERIF_RUNS'] = runs
        p = subprocess.run(['/venv/bin/python', '/verif/run.py', 'check', pid, '--tier', 'quick'], capture_output=True, text=True, env=env)
        lines = [l for l in p.stdout.splitlines() if l.startswith(('VIOLATION', '  ', 'HARNESS', 'KNOWN'))][:8]
        print('%s exit=%d' % (pid, p.returncode))
        for l in lines:
            print('   ', l[:300])
        if p.returncode == 2:
            print(p.stdout[-1500:], p.stderr[-1500:])
finally:
    subprocess.run(['git', '-C', '/repo', 'checkout', '--', '.'])
