#!/venv/bin/python
"""Regenerates MANIFEST.json from the property modules that exist (run by hand after adding a check)."""
import json
import os
import sys

HERE = os.path.dirname(os.path.abspath(__file__))
sys.path.insert(0, HERE)
sys.path.insert(0, '/repo')
NA = {
    'C01': 'pure function of one 64-byte record: no schedule, stream, fault or history can change its truth (DESIGN.md 3, 4/C01); wrong masks/field order would still surface inside C02/C03, which compare every record of every simulated dump with an independent codec',
    'C09': 'pure per-decoder rendering of one window\'s START words: deciding it is argument enumeration against a rendering spec, not simulation (DESIGN.md 4/C09-C11)',
    'C10': 'pure function of one (START, END) record pair (DESIGN.md 4/C09-C11)',
    'C11': 'pure function of one flag word (DESIGN.md 4/C09-C11); its crash consequence (ioctl length bit 28) is covered by C07',
    'C16': 'pure function of one log dict and the string index (DESIGN.md 4/C16); optional-key subsets are exercised incidentally by the C03 writer',
    'C17': 'membership facts about two static tables plus a pure twin rendering; nothing to schedule or inject (DESIGN.md 4/C17)',
    'C19': 'pure text->dict function and a stateless per-event table lookup (DESIGN.md 4/C19); every simulated run passes the table explicitly and a share pass an id-remapped one',
}
TEXT = json.load(open(os.path.join(HERE, 'data', 'manifest_texts.json')))
checks = []
not_app = [{'property_id': k, 'reason': v} for k, v in sorted(NA.items())]
for pid in ['C02', 'C03', 'C04', 'C05', 'C06', 'C07', 'C08', 'C12', 'C13', 'C14', 'C15', 'C18', 'C20']:
    if not os.path.exists(os.path.join(HERE, 'simkd', 'props', pid.lower() + '.py')) or pid not in TEXT:
        not_app.append({'property_id': pid, 'reason': 'check under construction in this session (DESIGN.md 4/%s describes it); not claimed until it runs clean' % pid})
        continue
    t = TEXT[pid]
    checks.append({
        'property_id': pid,
        'quick_cmd': 'timeout 900 /venv/bin/python run.py check %s --tier quick' % pid,
        'thorough_cmd': 'timeout 3000 /venv/bin/python run.py check %s --tier thorough' % pid,
        'evidence_file': 'evidence/%s.json' % pid,
        'replay_cmd_template': '/venv/bin/python run.py replay {path}',
        'engine': 'simkd',
        'level_claimed': {'category': t['level'], 'text': t['text'], 'design_ref': 'DESIGN.md 4/' + pid},
        'level_note': t['note'],
        'technique': t['technique'],
    })
m = {
    'version': 1,
    'setup_cmd': '/venv/bin/python run.py selftest env',
    'hooks': {
        'guard': 'PYKDEBUGPARSER_VERIF',
        'enable': 'no source hooks exist: every seam used (reader argument, TracesParser.handlers instance dict, shared table dicts, trace_codes argument, sys.modules swap of errno/signal/socket/os/sys/platform/ctypes/struct/resource for a per-host copy of the package) is already in the code; the guard variable is read by nothing',
        'baseline_off_cmd': 'cd /repo && /venv/bin/python -m pytest -ra -q -p no:cacheprovider --timeout=900 --continue-on-collection-errors',
        'source_commits': [],
        'add_only': True,
    },
    'engines': [{'name': 'simkd', 'path': 'simkd/', 'serves_properties': [c['property_id'] for c in checks],
                 'kind_free_text': 'deterministic simulation with fault injection: seeded SimKernel (thread programs, kernel multi-record encoders, scheduler, ring-wrap/lost-event/kill faults) -> simulated dump writer (v2/v3) -> SimReader (truncation, EIO, read budget) -> the real pykdebugparser pipeline -> SimConsumer; scenarios are data, one integer decides everything, violations are minimised and replayed in a fresh interpreter'}],
    'checks': checks,
    'not_applicable': not_app,
    'notes': 'All commands run from /verif, import /repo\'s working tree directly (nothing to build), honour VERIF_SEED / VERIF_TIER / VERIF_JOBS. Exit 0 = held on everything explored (KNOWN-FINDING lines possible), exit 1 = VIOLATION line with a replay file, exit 2 = harness trouble (never a pass). known_findings.json lists fixed and known findings.',
}
json.dump(m, open(os.path.join(HERE, 'MANIFEST.json'), 'w'), indent=1)
print('checks:', [c['property_id'] for c in checks])
