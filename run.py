#!/venv/bin/python
"""Entry point: run.py check <ID> [--tier quick|thorough] | replay <file> | selftest env|determinism."""
import argparse
import os
import sys

HERE = os.path.dirname(os.path.abspath(__file__))
if os.environ.get('PYTHONHASHSEED') is None:
    # one more nondeterminism source pinned: re-exec with a fixed hash seed (checks do not depend on it; see selftest)
    os.environ['PYTHONHASHSEED'] = '0'
    os.execv(sys.executable, [sys.executable] + sys.argv)
os.environ.setdefault('PYTHONDONTWRITEBYTECODE', '1')
sys.dont_write_bytecode = True
sys.path.insert(0, HERE)
sys.path.insert(0, os.environ.get('VERIF_REPO', '/repo'))


def main():
    ap = argparse.ArgumentParser()
    sub = ap.add_subparsers(dest='cmd', required=True)
    c = sub.add_parser('check')
    c.add_argument('pid')
    c.add_argument('--tier', default=os.environ.get('VERIF_TIER', 'quick'))
    r = sub.add_parser('replay')
    r.add_argument('path')
    r.add_argument('--expect', default=None)
    s = sub.add_parser('selftest')
    s.add_argument('what')
    s.add_argument('--props', default='')
    s.add_argument('--n', type=int, default=200)
    a = ap.parse_args()
    from simkd import runner
    if a.cmd == 'check':
        tier = a.tier if a.tier in ('quick', 'thorough') else 'quick'
        seed = int(os.environ.get('VERIF_SEED', '0') or 0)
        jobs = int(os.environ.get('VERIF_JOBS', '0') or 0) or min(16, os.cpu_count() or 1)
        sys.exit(runner.check(a.pid.upper(), tier, seed, jobs))
    if a.cmd == 'replay':
        sys.exit(runner.replay(a.path, a.expect))
    if a.cmd == 'selftest':
        from simkd import selftest
        sys.exit(selftest.main(a.what, a.props, a.n))


if __name__ == '__main__':
    main()
