"""SimReader: the storage seam.  An in-memory stream that counts calls and bytes, ends where the simulator says
(truncation is done by the caller slicing the bytes), can raise EIO at the k-th read, and enforces a read budget
in simulated steps by raising a BaseException subclass that the tool cannot swallow."""
import errno
import io


class SimBudgetExceeded(BaseException):
    pass


class SimReader(io.BytesIO):
    def __init__(self, data, budget_calls=None, budget_bytes=None, eio_at=None):
        super().__init__(data)
        self.size = len(data)
        self.calls = 0
        self.bytes_read = 0
        self.seeks = 0
        self.empty_reads = 0
        self.budget_calls = budget_calls
        self.budget_bytes = budget_bytes
        self.eio_at = eio_at
        self.eio_fired = False

    def read(self, n=-1):
        self.calls += 1
        if self.eio_at is not None and self.calls == self.eio_at:
            self.eio_fired = True
            raise OSError(errno.EIO, 'simulated I/O error')
        if self.budget_calls is not None and self.calls > self.budget_calls:
            raise SimBudgetExceeded('read calls %d > budget %d (size %d)' % (self.calls, self.budget_calls, self.size))
        b = super().read(n)
        if not b:
            self.empty_reads += 1
        self.bytes_read += len(b)
        if self.budget_bytes is not None and self.bytes_read > self.budget_bytes:
            raise SimBudgetExceeded('bytes read %d > budget %d' % (self.bytes_read, self.budget_bytes))
        return b

    def seek(self, off, whence=0):
        self.seeks += 1
        return super().seek(off, whence)


class SimRawReader(io.RawIOBase):
    """The same storage seen through an UNBUFFERED stream (what open(path, 'rb', buffering=0) or a pipe gives): a RawIOBase
    whose readinto() may legally return fewer bytes than asked for.  Budget and counters as SimReader."""

    def __init__(self, data, budget_calls=None, budget_bytes=None, short_reads=None):
        super().__init__()
        self._data = bytes(data)
        self._pos = 0
        self.size = len(data)
        self.calls = 0
        self.bytes_read = 0
        self.budget_calls = budget_calls
        self.budget_bytes = budget_bytes
        self.short_reads = short_reads      # None, or an int k: every read returns at most k bytes
        self.eio_fired = False

    def readable(self):
        return True

    def seekable(self):
        return True

    def readinto(self, b):
        self.calls += 1
        if self.budget_calls is not None and self.calls > self.budget_calls:
            raise SimBudgetExceeded('read calls %d > budget %d (size %d)' % (self.calls, self.budget_calls, self.size))
        n = len(b)
        if self.short_reads:
            n = min(n, self.short_reads)
        chunk = self._data[self._pos:self._pos + n]
        b[:len(chunk)] = chunk
        self._pos += len(chunk)
        self.bytes_read += len(chunk)
        if self.budget_bytes is not None and self.bytes_read > self.budget_bytes:
            raise SimBudgetExceeded('bytes read %d > budget %d' % (self.bytes_read, self.budget_bytes))
        return len(chunk)

    def read(self, n=-1):
        # (served from the buffer directly: RawIOBase.read(n) would first allocate n bytes, and a garbage length field read
        #  from a cut file can ask for terabytes)
        self.calls += 1
        if self.budget_calls is not None and self.calls > self.budget_calls:
            raise SimBudgetExceeded('read calls %d > budget %d (size %d)' % (self.calls, self.budget_calls, self.size))
        if n is None or n < 0:
            n = len(self._data) - self._pos
        if self.short_reads:
            n = min(n, self.short_reads)
        chunk = self._data[self._pos:self._pos + n]
        self._pos += len(chunk)
        self.bytes_read += len(chunk)
        if self.budget_bytes is not None and self.bytes_read > self.budget_bytes:
            raise SimBudgetExceeded('bytes read %d > budget %d' % (self.bytes_read, self.budget_bytes))
        return chunk

    def readall(self):
        return self.read(-1)

    def seek(self, off, whence=0):
        if whence == 0:
            self._pos = off
        elif whence == 1:
            self._pos += off
        else:
            self._pos = len(self._data) + off
        self._pos = max(0, self._pos)
        return self._pos

    def tell(self):
        return self._pos
