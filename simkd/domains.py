"""Argument domains per decoder: which START/END word must be a member of which enum *as declared in the tree
under test* (values are read from the live modules at run time).  Reviewed against the handler sources; see
DESIGN.md Appendix A.  Everything not listed accepts any 64-bit word."""
from . import tool

# name -> list of (where, index, kind, spec)
#   where: 'S' or 'E'; kind: 'enum' (module attr path), 'host' (errno/signal/socket object), 'special'
DOMAINS = {
    'BSC_sigaction': [('S', 0, 'host', 'Signals')],
    'BSC_sigprocmask': [('S', 0, 'enum', 'bsd.SigprocmaskFlags')],
    'BSC_sys_fcntl': [('S', 1, 'enum', 'bsd.FcntlCmd')],
    'BSC_sys_fcntl_nocancel': [('S', 1, 'enum', 'bsd.FcntlCmd')],
    'BSC_setpriority': [('S', 0, 'enum', 'bsd.PriorityWhich')],
    'BSC_getpriority': [('S', 0, 'enum', 'bsd.PriorityWhich')],
    'BSC_socket': [('S', 0, 'host', 'AddressFamily'), ('S', 1, 'host', 'SocketKind')],
    'BSC_socketpair': [('S', 0, 'host', 'AddressFamily'), ('S', 1, 'host', 'SocketKind')],
    'BSC_socket_delegate': [('S', 0, 'host', 'AddressFamily'), ('S', 1, 'host', 'SocketKind')],
    'BSC_getrusage': [('S', 0, 'enum32', 'bsd.RusageWho')],
    'BSC_csops': [('S', 1, 'enum', 'bsd.CsopsOps')],
    'BSC_csops_audittoken': [('S', 1, 'enum', 'bsd.CsopsOps')],
    'BSC_proc_info': [('S', 0, 'enum', 'bsd.ProcInfoCall')],
    'BSC_fs_snapshot': [('S', 0, 'enum', 'bsd.FsSnapshotOp')],
    'INTERRUPT': [('S', 3, 'enum', 'mach.InterruptType')],
    'MSC_mach_port_allocate_trap': [('S', 1, 'enum', 'mach.MachPortRight')],
    'MSC_mach_port_mod_refs_trap': [('S', 2, 'enum', 'mach.MachPortRight')],
    'MSC_mach_port_insert_right_trap': [('S', 3, 'enum', 'mach.MachMsgTypeName')],
    'MSC_mach_port_get_attributes_trap': [('S', 2, 'enum', 'mach.MachPortFlavor')],
    'MSC_thread_switch': [('S', 1, 'enum', 'mach.SwitchOption')],
    'MSC_mk_timer_arm_leeway': [('S', 1, 'enum', 'mach.MkTimerFlags')],
    'MACH_IDLE': [('E', 1, 'enum', 'mach.ProcessState')],
    'TURNSTILE_turnstile_prepare': [('S', 2, 'enum', 'turnstile.TurnstileType')],
    'TURNSTILE_turnstile_complete': [('S', 2, 'enum', 'turnstile.TurnstileType')],
    'MACH_vmfault': [('E', 3, 'enum', 'mach.DbgVmFaultType')],
    'RealFaultAddressInternal': [('S', 1, 'lowbyte', 'mach.DbgVmFaultType')],
    'RealFaultAddressExternal': [('S', 1, 'lowbyte', 'mach.DbgVmFaultType')],
    'RealFaultAddressSharedCache': [('S', 1, 'lowbyte', 'mach.DbgVmFaultType')],
    'MSC_semaphore_timedwait_trap': [('E', 0, 'enum', 'mach.KernReturn')],
    'BSC_getsockopt': [('S', 1, 'sockopt', None)],
    'BSC_setsockopt': [('S', 1, 'sockopt', None)],
    'BSC_ioctl': [('S', 1, 'ioctl', None)],
}

# records that carry text in all 32 data bytes (must be valid UTF-8 once NULs are removed)
TEXT_RECORDS = ('TRACE_STRING_NEWTHREAD', 'TRACE_STRING_EXEC', 'TRACE_STRING_PROC_EXIT', 'TRACE_STRING_THREADNAME',
                'TRACE_STRING_THREADNAME_PREV', 'TRACE_STRING_GLOBAL', 'VFS_LOOKUP')
UUID_RECORDS = ()


def _enum_values(spec, mods=None):
    modname, cls = spec.split('.')
    mod = (mods or tool.FAMILIES)[modname]
    return [m.value for m in getattr(mod, cls)]


def host_values(kind, bsd_mod=None):
    b = bsd_mod or tool.bsd
    if kind == 'Signals':
        return [int(m.value) for m in b.Signals]
    sockns = b if hasattr(b, 'AddressFamily') else b.socket     # the tree names these itself, or takes the host's
    if kind == 'AddressFamily':
        return [int(m.value) for m in sockns.AddressFamily]
    if kind == 'SocketKind':
        return [int(m.value) for m in sockns.SocketKind]
    raise KeyError(kind)


def draw(rng, name, bsd_mod=None):
    """(start_words, end_words) for one window of decoder `name`, every word in the domain the decoder names."""
    s = rng.words()
    e = rng.words()
    # error word: mostly 0 or a small errno, sometimes anything
    r = rng.random()
    if r < 0.5:
        e[0] = 0
    elif r < 0.9:
        e[0] = rng.randrange(1, 110)
    for where, idx, kind, spec in DOMAINS.get(name, ()):
        tgt = s if where == 'S' else e
        if kind == 'enum':
            tgt[idx] = rng.pick(_enum_values(spec)) & 0xffffffffffffffff
        elif kind == 'enum32':
            tgt[idx] = (rng.pick(_enum_values(spec)) & 0xffffffff) | (rng.pick([0, 0, 1, 0xabc]) << 32)
        elif kind == 'lowbyte':
            tgt[idx] = (tgt[idx] & ~0xff & 0xffffffffffffffff) | rng.pick(_enum_values(spec))
        elif kind == 'host':
            tgt[idx] = rng.pick(host_values(spec, bsd_mod))
        elif kind == 'sockopt':
            b = bsd_mod or tool.bsd
            sol = int(b.SOL_SOCKET if hasattr(b, 'SOL_SOCKET') else b.socket.SOL_SOCKET)
            if rng.chance(0.5):
                tgt[1] = sol
                tgt[2] = rng.pick([m.value for m in b.SocketOptionName])
            elif tgt[1] == sol:
                tgt[1] = 6
        elif kind == 'ioctl':
            b = bsd_mod or tool.bsd
            direction = rng.pick(sorted(b.IOC_REQUEST_PARAMS))
            tgt[1] = (direction & 0xe0000000) | rng.randrange(0, 1 << 29) if rng.chance(0.7) else \
                (direction & 0xe0000000) | (rng.pick([0, 1, 0xfff, 0x1000, 0x1fff]) << 16) | rng.randrange(0, 1 << 16)
    if name == 'MACH_vmfault':
        # END word 2 is the result; the fault type (END word 3) is only converted when the result is 0
        e[2] = 0 if rng.chance(0.7) else rng.randrange(1, 10)
    return s, e


def draw_single(rng, name, bsd_mod=None):
    """Words for a NONE/ALL-qualified record of decoder `name`: the one record is both first and last of its
    window, so it has to satisfy the START- and the END-position domains at once."""
    s, e = draw(rng, name, bsd_mod)
    for where, idx, kind, spec in DOMAINS.get(name, ()):
        if where == 'E':
            s[idx] = e[idx]
    if name == 'MACH_vmfault':
        s[2] = e[2]
    return s
