"""Generic scenario minimiser: greedy structural reduction of a JSON value while a predicate keeps holding.

Candidates, in order: delete list elements (big chunks first, ddmin style) in every list that is not a fixed-arity
tuple; empty/halve the schedule; shorten strings under text keys; zero integers under size keys."""
import copy
import time

FIXED = {'a', 's', 'e', 'udata_row', 'hosts'}        # lists with fixed arity (4 words etc.)
TEXT_KEYS = {'path', 'text', 'name', 'filler1', 'filler2'}
ZERO_KEYS = {'pad', 'gapn', 'n', 'after', 'vnode', 'count', 'dbgid'}


def _paths(v, path=()):
    """All (path, kind) of reducible spots."""
    if isinstance(v, dict):
        for k in v:
            sub = v[k]
            p = path + (k,)
            if isinstance(sub, list) and k not in FIXED:
                yield p, 'list'
            if isinstance(sub, str) and k in TEXT_KEYS and len(sub) > 0:
                yield p, 'str'
            if isinstance(sub, int) and not isinstance(sub, bool) and k in ZERO_KEYS and sub != 0:
                yield p, 'int'
            if isinstance(sub, (dict, list)) and k not in FIXED:
                yield from _paths(sub, p)
    elif isinstance(v, list):
        for i, sub in enumerate(v):
            if isinstance(sub, list):
                yield path + (i,), 'list'
            if isinstance(sub, (dict, list)):
                yield from _paths(sub, path + (i,))


def _get(v, path):
    for p in path:
        v = v[p]
    return v


def _set(v, path, new):
    for p in path[:-1]:
        v = v[p]
    v[path[-1]] = new


def minimise(scn, still_fails, max_execs=1500, max_wall=45.0):
    """Returns (smaller scenario, executions used)."""
    t0 = time.time()
    execs = 0
    cur = copy.deepcopy(scn)

    def attempt(cand):
        nonlocal execs, cur
        if execs >= max_execs or time.time() - t0 > max_wall:
            return False
        execs += 1
        try:
            ok = still_fails(cand)
        except Exception:
            ok = False
        if ok:
            cur = cand
        return ok

    def spent():
        return execs >= max_execs or time.time() - t0 > max_wall

    progress = True
    while progress and not spent():
        progress = False
        for path, kind in list(_paths(cur)):
            if spent():          # (checked before any candidate is built: copying a 30000-op scenario is not free)
                break
            try:
                val = _get(cur, path)
            except (KeyError, IndexError, TypeError):
                continue
            if kind == 'list' and isinstance(val, list) and val:
                n = len(val)
                size = n
                while size >= 1:
                    i = 0
                    while i < len(_get(cur, path)) and not spent():
                        lst = _get(cur, path)
                        cand = copy.deepcopy(cur)
                        _set(cand, path, lst[:i] + lst[i + size:])
                        if attempt(cand):
                            progress = True
                        else:
                            i += size
                    size //= 2
            elif kind == 'str' and isinstance(val, str) and val:
                for new in ('', val[:len(val) // 2], val[:-1]):
                    if new != val and not spent():
                        cand = copy.deepcopy(cur)
                        _set(cand, path, new)
                        if attempt(cand):
                            progress = True
                            break
            elif kind == 'int' and val:
                for new in (0, 1):
                    if new != val and not spent():
                        cand = copy.deepcopy(cur)
                        _set(cand, path, new)
                        if attempt(cand):
                            progress = True
                            break
    return cur, execs
