"""One integer decides everything: SplitMix64 mixing + a random.Random with helpers.

Python's hash() is never used anywhere in simkd (it is salted per process)."""
import random

MASK = (1 << 64) - 1


def splitmix64(x):
    x = (x + 0x9E3779B97F4A7C15) & MASK
    z = x
    z = ((z ^ (z >> 30)) * 0xBF58476D1CE4E5B9) & MASK
    z = ((z ^ (z >> 27)) * 0x94D049BB133111EB) & MASK
    return z ^ (z >> 31)


def mix64(*parts):
    h = 0x243F6A8885A308D3
    for p in parts:
        h = splitmix64(h ^ (int(p) & MASK))
    return h


def str_ord(s):
    """Stable small integer for a string (property ids, tags) without hash()."""
    v = 0
    for ch in s.encode():
        v = (v * 131 + ch) & MASK
    return v


LETTERS = 'abcdefghijklmnopqrstuvwxyzABCDEFGHIJKLMNOPQRSTUVWXYZ0123456789_-./'
MULTI = ['é', 'ß', 'λ', 'я', '中', '語', 'ñ',
         # text that is valid UTF-8 but not NFC/NFKC-stable: decomposed accents, conjoining jamo, singletons, ligatures
         'e\u0301', 'o\u0308', '\u1100\u1161', '\u212b', '\u2126', '\ufb01', '\u00a0', '\u2003']
INTERESTING = [0, 1, 2, 3, 7, 8, 0x10, 0x1f, 0x7f, 0x80, 0xff, 0x100, 0xffff, 0x10000, 0x7fffffff, 0x80000000,
               0xffffffff, 0x100000000, 0x7fffffffffffffff, 0x8000000000000000, 0xffffffffffffffff]


class Rng(random.Random):
    # values that already mean something elsewhere in the scenario (thread ids, pids, string ids, addresses): argument words
    # are sometimes drawn from here, so that fields of unrelated records coincide far more often than chance would allow
    pool = ()

    def chance(self, p):
        return self.random() < p

    def pick(self, seq):
        return seq[self.randrange(len(seq))]

    def word(self):
        r = self.random()
        if self.pool and r < 0.1:
            return self.pool[self.randrange(len(self.pool))]
        if r < 0.25:
            return self.pick(INTERESTING)
        if r < 0.55:
            return self.randrange(0, 256)
        if r < 0.8:
            return self.randrange(0, 1 << 32)
        return self.randrange(0, 1 << 64)

    def words(self, n=4):
        return [self.word() for _ in range(n)]

    def text(self, nbytes, multibyte=True):
        """Valid UTF-8 text of exactly nbytes encoded bytes, no NUL, no quotes/backslashes."""
        out = []
        left = nbytes
        while left > 0:
            if multibyte and left >= 2 and self.random() < 0.12:
                ch = self.pick(MULTI)
                b = len(ch.encode())
                if b <= left:
                    out.append(ch)
                    left -= b
                    continue
            out.append(self.pick(LETTERS))
            left -= 1
        return ''.join(out)

    def ident(self, lo=1, hi=12):
        return ''.join(self.pick(LETTERS[:52]) for _ in range(self.randint(lo, hi)))
