"""Independent reference codec for the 64-byte kd_buf record (shares nothing with /repo)."""
import struct

REC = struct.Struct('<Q32sQIIQ')
SIZE = 64


def data_of(words):
    return struct.pack('<QQQQ', *[w & 0xffffffffffffffff for w in words])


def words_of(data):
    return list(struct.unpack('<QQQQ', data))


def pack(ts, words, tid, debugid, cpu=0, unused=0):
    return REC.pack(ts & 0xffffffffffffffff, data_of(words), tid & 0xffffffffffffffff, debugid & 0xffffffff,
                    cpu & 0xffffffff, unused & 0xffffffffffffffff)


def ref_decode(buf):
    """(timestamp, data, values, tid, debugid, eventid, qualifier) as the property C01/C02 states it."""
    ts, data, tid, debugid, _cpu, _unused = REC.unpack(buf)
    return (ts, data, tuple(struct.unpack('<QQQQ', data)), tid, debugid, debugid & ~3 & 0xffffffff, debugid & 3)


def text_words(text_bytes, nwords):
    """NUL-pad text bytes to nwords 64-bit words."""
    b = text_bytes + b'\x00' * (nwords * 8 - len(text_bytes))
    return list(struct.unpack('<' + 'Q' * nwords, b[:nwords * 8]))
