"""Self-tests: env (setup_cmd), determinism (same seed twice, in-process and in fresh interpreters with different
PYTHONHASHSEED values)."""
import json
import os
import subprocess
import sys


def env():
    from . import tool
    import construct, pygments, click, termcolor  # noqa: F401
    from . import worlds
    cat = worlds.catalog()
    print('tool imported from', os.path.dirname(tool.pykdebugparser.__file__), 'decoders', len(cat['names']),
          'path-taking', len(cat['path_names']))
    assert len(cat['names']) > 100
    return 0


def digests(props, n, seed=0, tier='quick'):
    from . import runner
    out = {}
    for pid in props:
        prop = runner.load_prop(pid)
        for i in range(n):
            scn = runner.gen(prop, seed, tier, i)
            res = prop.execute(scn)
            out['%s/%d' % (pid, i)] = res['digest']
    return out


def determinism(props, n):
    from . import runner
    props = props or [p for p in runner.PROPS if os.path.exists(os.path.join(runner.VERIF, 'simkd', 'props', p.lower() + '.py'))]
    a = digests(props, n)
    b = digests(props, n)
    bad = [k for k in a if a[k] != b[k]]
    print('in-process twice: %d runs, %d diverged' % (len(a), len(bad)))
    for hs in ('1', '2'):
        e = dict(os.environ)
        e['PYTHONHASHSEED'] = hs
        p = subprocess.run([sys.executable, os.path.join(runner.VERIF, 'run.py'), 'selftest', 'digests', '--props', ','.join(props),
                            '--n', str(n)], capture_output=True, text=True, env=e, timeout=3000)
        c = json.loads(p.stdout.strip().splitlines()[-1])
        bad2 = [k for k in a if a[k] != c.get(k)]
        print('fresh interpreter PYTHONHASHSEED=%s: %d diverged %s' % (hs, len(bad2), bad2[:5]))
        bad += bad2
    return 1 if bad else 0


def main(what, props, n):
    props = [p for p in props.split(',') if p]
    if what == 'env':
        return env()
    if what == 'digests':
        print(json.dumps(digests(props, n)))
        return 0
    if what == 'determinism':
        return determinism(props, n)
    print('unknown selftest', what)
    return 2
