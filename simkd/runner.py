"""Runner: seeded batches over 16 forked workers, classification of outcomes, minimisation, fresh-interpreter
confirmation, known-findings protocol, evidence files.  See DESIGN.md 2.7-2.9 and 9."""
import collections
import concurrent.futures
import faulthandler
import hashlib
import importlib
import json
import multiprocessing
import os
import subprocess
import sys
import time
import traceback

from . import rng as rngmod
from . import shrink

VERIF = os.path.dirname(os.path.dirname(os.path.abspath(__file__)))
PROPS = ['C02', 'C03', 'C04', 'C05', 'C06', 'C07', 'C08', 'C12', 'C13', 'C14', 'C15', 'C18', 'C20']
WALL_CAP = {'quick': 420.0, 'thorough': 1500.0}
RUN_WATCHDOG = 120


def load_prop(pid):
    return importlib.import_module('simkd.props.' + pid.lower())


def canonical(obj):
    return json.dumps(obj, sort_keys=True, separators=(',', ':'), default=_default)


def _default(o):
    if isinstance(o, bytes):
        return {'$b': o.hex()}
    if isinstance(o, (set, frozenset)):
        return sorted(o)
    if isinstance(o, tuple):
        return list(o)
    return repr(o)


def digest_of(scn, hist):
    return hashlib.sha256(canonical([scn, hist]).encode()).hexdigest()


def run_seed(seed, pid, tier, index):
    return rngmod.mix64(seed, rngmod.str_ord(pid), rngmod.str_ord(tier), index)


def gen(prop, seed, tier, index):
    r = rngmod.Rng(run_seed(seed, prop.ID, tier, index))
    scn = prop.generate(r, index, tier)
    scn['property'] = prop.ID
    scn['seed'] = seed
    scn['index'] = index
    scn['tier'] = tier
    return scn


def vkey(v):
    return v['tag'] + '|' + v['sig']


def load_known():
    path = os.path.join(VERIF, 'known_findings.json')
    if not os.path.exists(path):
        return []
    with open(path) as f:
        return json.load(f)['findings']


_WORKER_HISTORY = []      # the work items this worker process has executed so far, in order: [lo, hi) index ranges


def _worker(args):
    pid, seed, tier, lo, hi, recheck_mod = args
    before = [list(x) for x in _WORKER_HISTORY]
    faulthandler.enable()
    faulthandler.dump_traceback_later(RUN_WATCHDOG * 15, exit=True)        # last-resort net only (30 min per work item)
    prop = load_prop(pid)
    stats = collections.Counter()
    digests = set()
    shapes = set()
    viols = []
    samples = []
    errors = []
    nondet = 0
    rechecked = 0
    n = 0
    extent = collections.Counter()
    for index in range(lo, hi):
        try:
            scn = gen(prop, seed, tier, index)
            res = prop.execute(scn)
        except Exception:
            errors.append({'index': index, 'trace': traceback.format_exc()[-2000:]})
            continue
        n += 1
        stats.update(res.get('stats', {}))
        extent.update(res.get('extent', {}))
        if res.get('nontrivial'):
            digests.add(res['digest'][:16])
        if res.get('shape') is not None:
            shapes.add(res['shape'])
        for v in res['violations']:
            viols.append({'index': index, 'tag': v['tag'], 'sig': v['sig'], 'detail': v.get('detail', ''),
                          'process_history': before + [[lo, index]] if len(viols) < 8 else None})
        if len(samples) < 1 and res.get('nontrivial'):
            samples.append(scn)
        if recheck_mod and index % recheck_mod == 0:
            rechecked += 1
            try:
                scn2 = gen(prop, seed, tier, index)
                res2 = prop.execute(scn2)
                if res2['digest'] != res['digest'] or canonical(scn2) != canonical(scn):
                    nondet += 1
            except Exception:
                nondet += 1
    faulthandler.cancel_dump_traceback_later()
    _WORKER_HISTORY.append([lo, hi])
    return {'n': n, 'stats': dict(stats), 'digests': digests, 'shapes': shapes, 'viols': viols[:200],
            'nviol': len(viols), 'samples': samples, 'errors': errors[:5], 'nerr': len(errors), 'nondet': nondet,
            'rechecked': rechecked, 'extent': dict(extent)}


def replay_known(prop, known, out):
    """Replays the pinned reproducers of this property.  Returns list of new violations (fixed ones that fail)."""
    bad = []
    matched = []
    for k in known:
        if k['property'] != prop.ID:
            continue
        path = os.path.join(VERIF, k['reproducer'])
        with open(path) as f:
            rep = json.load(f)
        res = prop.execute(rep['scenario'])
        keys = {vkey(v) for v in res['violations']}
        if k['status'] == 'known':
            if k['signature'] in keys:
                out(k.get('line') or 'KNOWN-FINDING: property=%s %s' % (prop.ID, k['what']))
                matched.append(k['id'])
            else:
                out('note: known finding %s no longer reproduces on this tree (entry is stale, nothing suppressed '
                    'wrongly: suppression is by signature)' % k['id'])
        else:
            if k['signature'] in keys or res['violations']:
                bad.append((path, res['violations'][0]))
    return bad, matched


def confirm_fresh(path, expect_key):
    env = dict(os.environ)
    env['PYTHONHASHSEED'] = '4242'
    env['VERIF_REPLAY_QUIET'] = '1'
    try:
        p = subprocess.run([sys.executable, os.path.join(VERIF, 'run.py'), 'replay', path, '--expect', expect_key],
                           capture_output=True, text=True, timeout=300, env=env)
    except subprocess.TimeoutExpired:
        return False, 'timeout'
    return p.returncode == 1 and 'REPRODUCED' in p.stdout, (p.stdout + p.stderr)[-1500:]


def check(pid, tier, seed, jobs, out=print):
    t0 = time.time()
    prop = load_prop(pid)
    total = prop.RUNS[tier]
    if os.environ.get('VERIF_RUNS'):
        total = int(os.environ['VERIF_RUNS'])
    known = load_known()
    known_sigs = {k['signature']: k for k in known if k['property'] == pid and k['status'] == 'known'}
    bad_fixed, matched = replay_known(prop, known, out)
    violations_reported = 0
    for path, v in bad_fixed:
        out('VIOLATION property=%s replay=%s' % (pid, path))
        out('  (a finding recorded as fixed fails again: %s %s)' % (v['tag'], v['sig']))
        violations_reported += 1

    chunk = max(1, min(getattr(prop, 'CHUNK', 64), total // (jobs * 4) or 1))
    tasks = [(pid, seed, tier, lo, min(lo + chunk, total), getattr(prop, 'RECHECK_MOD', 97))
             for lo in range(0, total, chunk)]
    agg = {'n': 0, 'stats': collections.Counter(), 'digests': set(), 'shapes': set(), 'viols': [], 'nviol': 0,
           'samples': [], 'errors': [], 'nerr': 0, 'nondet': 0, 'rechecked': 0, 'extent': collections.Counter()}
    harness_trouble = []
    capped = False
    ctx = multiprocessing.get_context('fork')
    # The batch runs in several generations of worker processes, each generation forked afresh from this (pristine) process:
    # state that the tree under test keeps per process (module-level caches filled on first use) is then exercised from many
    # different first uses instead of one per worker.  Which scenario runs in which generation is a function of the task order.
    ngen = max(1, min(int(os.environ.get('VERIF_GENERATIONS', '6' if tier == 'quick' else '12')), len(tasks)))
    # (interleaved slices: every generation gets runs from the whole index range, so that rare run families are spread too)
    slices = [tasks[g::ngen] for g in range(ngen)]
    for gen_tasks in slices:
      if capped:
          break
      with concurrent.futures.ProcessPoolExecutor(max_workers=jobs, mp_context=ctx) as ex:
        futs = [ex.submit(_worker, t) for t in gen_tasks]
        for f in futs:
            left = WALL_CAP[tier] - (time.time() - t0)
            if left <= 0:
                capped = True
                f.cancel()
                continue
            try:
                r = f.result(timeout=max(left, 1) + RUN_WATCHDOG)
            except concurrent.futures.TimeoutError:
                harness_trouble.append('worker timeout')
                continue
            except concurrent.futures.CancelledError:
                continue
            except Exception as e:  # worker death
                harness_trouble.append('worker died: %r' % (e,))
                continue
            agg['n'] += r['n']
            agg['stats'].update(r['stats'])
            agg['extent'].update(r['extent'])
            agg['digests'] |= r['digests']
            agg['shapes'] |= r['shapes']
            agg['viols'] += r['viols']
            agg['nviol'] += r['nviol']
            if len(agg['samples']) < 2:
                agg['samples'] += r['samples']
            agg['errors'] += r['errors']
            agg['nerr'] += r['nerr']
            agg['nondet'] += r['nondet']
            agg['rechecked'] += r['rechecked']

    # classify violations
    known_hits = collections.Counter()
    new_by_key = collections.OrderedDict()
    for v in sorted(agg['viols'], key=lambda v: v['index']):
        k = vkey(v)
        if k in known_sigs:
            known_hits[known_sigs[k]['id']] += 1
        else:
            new_by_key.setdefault(k, v)
    replays = []
    max_report = int(os.environ.get('VERIF_MAX_REPORT', '3') or 3)
    shrink_wall = float(os.environ.get('VERIF_SHRINK_WALL', '45') or 45)
    for k, v in list(new_by_key.items())[:max_report]:
        scn = gen(prop, seed, tier, v['index'])

        def still(c, k=k):
            if not getattr(prop, 'valid', lambda s: True)(c):
                return False          # minimisation must stay inside the generator's premises
            res = prop.execute(c)
            return any(vkey(x) == k for x in res['violations'])
        try:
            small, used = shrink.minimise(scn, still, max_wall=shrink_wall)
        except Exception:
            small, used = scn, 0
        res = prop.execute(small)
        vv = [x for x in res['violations'] if vkey(x) == k]
        if not vv:
            small = scn
            res = prop.execute(small)
            vv = [x for x in res['violations'] if vkey(x) == k] or [v]
        os.makedirs(os.path.join(VERIF, 'replays'), exist_ok=True)
        h = hashlib.sha256(k.encode()).hexdigest()[:10]
        path = os.path.join(VERIF, 'replays', '%s-%d-%d-%s.json' % (pid, seed, v['index'], h))
        with open(path, 'w') as f:
            json.dump({'property': pid, 'violation': vv[0], 'key': k, 'digest': res['digest'], 'scenario': small,
                       'shrink_execs': used, 'found_at': {'seed': seed, 'tier': tier, 'index': v['index']}}, f,
                      indent=1, default=_default)
        ok, log = confirm_fresh(path, k)
        if not ok:
            # the minimised scenario may lean on state that earlier executions left in THIS process (a cache the change
            # under test introduced, say): fall back to the scenario as generated, which is a function of the seed alone
            res0 = prop.execute(scn)
            vv0 = [x for x in res0['violations'] if vkey(x) == k] or vv
            with open(path, 'w') as f:
                json.dump({'property': pid, 'violation': vv0[0], 'key': k, 'digest': res0['digest'], 'scenario': scn,
                           'shrink_execs': used, 'minimised': False,
                           'found_at': {'seed': seed, 'tier': tier, 'index': v['index']}}, f, indent=1, default=_default)
            ok, log = confirm_fresh(path, k)
            if not ok:
                # still not: the violation may need what EARLIER scenarios of the same work item left behind in the process
                # (module-level or class-level state in the tree under test).  The replay then is the run of scenarios
                # lo..index of this seed, in order, in one fresh process - still a pure function of the seed.
                lo = (v['index'] // chunk) * chunk
                # (the work items that the same worker process had executed before, then the item's own scenarios up to this one)
                ranges = v.get('process_history') or [[lo, v['index']]]
                with open(path, 'w') as f:
                    json.dump({'property': pid, 'violation': vv0[0], 'key': k, 'digest': None, 'scenario': scn,
                               'prelude': {'seed': seed, 'tier': tier, 'ranges': ranges},
                               'shrink_execs': used, 'minimised': False,
                               'found_at': {'seed': seed, 'tier': tier, 'index': v['index']}}, f, indent=1, default=_default)
                ok, log = confirm_fresh(path, k)
        if ok:
            out('VIOLATION property=%s replay=%s' % (pid, path))
            out('  %s: %s' % (k, str(vv[0].get('detail', ''))[:600]))
            violations_reported += 1
            replays.append(path)
        else:
            harness_trouble.append('violation %s did not reproduce in a fresh interpreter: %s' % (k, log[-400:]))

    # probes
    probe_counts = {p: agg['stats'].get('probe:' + p, 0) for p in getattr(prop, 'PROBES', [])}
    zero = [p for p, c in probe_counts.items() if c == 0]
    if zero and agg['n'] >= len(probe_counts) * 4 and not capped:
        harness_trouble.append('probes never hit: %s' % zero)
    if agg['nerr']:
        harness_trouble.append('%d generator/oracle exceptions, first: %s' % (agg['nerr'], agg['errors'][0]['trace']))
    if agg['nondet']:
        harness_trouble.append('%d of %d re-executed runs gave a different digest' % (agg['nondet'], agg['rechecked']))
    if agg['n'] == 0:
        harness_trouble.append('no run completed')
    elif capped and agg['n'] * 10 < total:
        # a wall-clock cap must never read as a pass: if not even a tenth of the batch ran, something (the tree under test or the
        # harness) has become pathologically slow
        harness_trouble.append('wall cap reached after %d of %d runs' % (agg['n'], total))

    wall = time.time() - t0
    faults = {k[6:]: v for k, v in agg['stats'].items() if k.startswith('fault:')}
    other = {k: v for k, v in agg['stats'].items() if not k.startswith(('fault:', 'probe:'))}
    ev = {
        'property_id': pid, 'tier': tier, 'seed': seed, 'level': prop.LEVEL,
        'coverage': {
            'evaluations': agg['n'],
            'distinct_nontrivial': len(agg['digests']),
            'rule': prop.RULE,
            'samples': agg['samples'][:2] or [gen(prop, seed, tier, 0)],
            'exhaustive': False,
            'runs_per_hour': int(agg['n'] / wall * 3600) if wall > 0 else 0,
            'seeds_per_hour': int(agg['n'] / wall * 3600) if wall > 0 else 0,
            'simulated_extent': dict(agg['extent']),
            'faults_fired': faults,
            'probe_hits': probe_counts,
            'distinct_shapes': len(agg['shapes']),
            'shape_measure': getattr(prop, 'SHAPE_MEASURE', ''),
            'counters': other,
            'determinism_rechecks': {'reexecuted': agg['rechecked'], 'diverged': agg['nondet']},
            'components': COMPONENTS,
            'known_findings_matched': dict(known_hits),
            'known_findings_replayed': matched,
            'wall_capped': capped,
            'workers': jobs,
            'harness_trouble': harness_trouble,
        },
        'assumptions': getattr(prop, 'ASSUMPTIONS', []),
        'wall_s': round(wall, 2),
        'violations': violations_reported,
    }
    os.makedirs(os.path.join(VERIF, 'evidence'), exist_ok=True)
    with open(os.path.join(VERIF, 'evidence', pid + '.json'), 'w') as f:
        json.dump(ev, f, indent=1, default=_default)
    out('%s %s seed=%d: %d runs in %.1fs (%d/h), %d distinct non-trivial, %d shapes, known-finding hits %s' % (
        pid, tier, seed, agg['n'], wall, ev['coverage']['runs_per_hour'], len(agg['digests']), len(agg['shapes']),
        dict(known_hits)))
    out('  faults fired: %s' % faults)
    out('  probes: %s' % probe_counts)
    out('  evidence: %s' % os.path.join(VERIF, 'evidence', pid + '.json'))
    if violations_reported:
        return 1
    if harness_trouble:
        for h in harness_trouble:
            out('HARNESS-TROUBLE: ' + h)
        return 2
    return 0


COMPONENTS = {
    'real': ['pykdebugparser.kd_buf_parser (incl. seek_until, construct layouts)', 'pykdebugparser.kevent',
             'pykdebugparser.os_log_event', 'pykdebugparser.pykdebugparser.PyKdebugParser',
             'pykdebugparser.traces_parser.TracesParser', 'pykdebugparser.trace_handlers.* (all seven)',
             'pykdebugparser.callstacks_parser', 'pykdebugparser.trace_codes + bundled trace.codes',
             'pykdebugparser.__main__.print_with_count / click CLI', 'construct', 'plistlib', 'pygments', 'termcolor',
             'click'],
    'stub': ['Darwin kernel event emission (SimKernel thread programs, lookup/string/thread-name encoders, interrupts)',
             'per-CPU merge / ring-buffer wrap / lost events (seeded scheduler + stream faults)',
             'ktrace dump writer (v2/v3 serialisation, chunk cuts, padding, filler, metadata blocks)',
             'storage (SimReader)', 'host OS tables (SimHost)', 'consumer (SimConsumer)'],
}


def replay(path, expect=None, out=print):
    with open(path) as f:
        rep = json.load(f)
    prop = load_prop(rep['property'])
    # every check process has used the library once before the first scenario runs (the catalog of live decoders is probed with
    # small windows): a replay starts from the same process history
    from . import worlds
    worlds.catalog()
    if rep.get('prelude'):
        pl = rep['prelude']
        ranges = pl.get('ranges') or [[pl['from'], pl['to'] + 1]]
        out('replaying the %d scenarios that the same process had executed before it (seed %d, index ranges %r)' % (
            sum(b - a for a, b in ranges), pl['seed'], ranges if len(ranges) <= 6 else ranges[:3] + ['...'] + ranges[-2:]))
        for a, b in ranges:
            for i in range(a, b):
                try:
                    prop.execute(gen(prop, pl['seed'], pl['tier'], i))
                except Exception:
                    pass
    res = prop.execute(rep['scenario'])
    keys = [vkey(v) for v in res['violations']]
    known = {k['signature'] for k in load_known() if k['property'] == rep['property'] and k['status'] == 'known'}
    want = expect or rep.get('key')
    out('replay %s: digest %s (recorded %s)' % (path, res['digest'][:16], str(rep.get('digest'))[:16]))
    for v in res['violations']:
        out('  violation %s: %s' % (vkey(v), str(v.get('detail', ''))[:1000]))
    if want and want in keys:
        same = rep.get('digest') in (None, res['digest'])
        out('REPRODUCED %s digest_same=%s' % (want, same))
        if want in known:
            out('KNOWN-FINDING: property=%s (replayed known finding)' % rep['property'])
            return 0 if not expect else 1
        out('VIOLATION property=%s replay=%s' % (rep['property'], path))
        return 1
    if keys and not want:
        out('VIOLATION property=%s replay=%s' % (rep['property'], path))
        return 1
    out('not reproduced')
    return 0
