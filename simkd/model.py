"""Reference models (independent of the repo's code): pairing windows, table updates, callstack attribution."""
import bisect  # noqa: F401  (deliberately unused by the callstack model: it is a linear scan)


class Windows:
    """The pairing rule exactly as C04 states it.  Per (domain, tid): code -> list of [stream index, optional]."""

    def __init__(self):
        self.open = {}
        self.reopened = 0
        self.stray = 0
        self.max_open = 0

    def feed(self, i, tid, code, q, domain):
        """Returns an expectation dict for record i:
        kind: 'start' | 'end-matched' | 'end-stray' | 'single'; for end-matched also must/may (index lists)."""
        st = self.open.setdefault((domain, tid), {})
        if q == 1:
            if code in st:
                self.reopened += 1
            for w in st.values():
                w.append([i, False])
            st.pop(code, None)
            st[code] = [[i, False]]
            self.max_open = max(self.max_open, len(st))
            return {'kind': 'start'}
        if q == 2:
            if code not in st:
                self.stray += 1
                for w in st.values():
                    w.append([i, True])
                return {'kind': 'end-stray'}
            for w in st.values():
                w.append([i, False])
            w = st.pop(code)
            return {'kind': 'end-matched', 'may': [x[0] for x in w], 'must': [x[0] for x in w if not x[1]]}
        for w in st.values():
            w.append([i, False])
        return {'kind': 'single'}

    def signature(self):
        return tuple(sorted((d, len(st)) for (d, _t), st in self.open.items() if st))


def is_subsequence(small, big):
    it = iter(big)
    return all(any(x == y for y in it) for x in small)


def window_ok(w, must, may):
    """must ⊆ w ⊆ may as subsequences, strictly increasing, no duplicates."""
    if any(w[i] >= w[i + 1] for i in range(len(w) - 1)):
        return False
    return is_subsequence(must, w) and is_subsequence(w, may)


def attribute(images, frame):
    """Linear scan: greatest load address <= frame; `images` is the announcement list in stream order (first
    identity of an address wins).  Returns (uuid, offset) or (None, None)."""
    best = None
    seen = set()
    for addr, uuid in images:
        if addr in seen:
            continue
        seen.add(addr)
        if addr <= frame and (best is None or addr > best[0]):
            best = (addr, uuid)
    if best is None:
        return None, None
    return best[1], frame - best[0]
