"""simkd: deterministic simulation of the world around pykdebugparser (see /verif/DESIGN.md)."""
