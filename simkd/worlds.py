"""Workload generators shared by the property modules: in-domain ops for every decodable name, with the context
each decoder wants (lookups for path-taking syscalls, string definitions before dyld ops, ...).  What the decoders
are and how many paths each shows is discovered from the live tables of the tree under test."""
import inspect

from . import domains, kernel, records, tool

LEN_FOCUS = [0, 1, 2, 15, 16, 17, 23, 24, 25, 31, 32, 33, 47, 48, 49, 55, 56, 57, 79, 80, 81, 87, 88, 89, 119, 120,
             121, 151, 152, 153, 183, 184]
DYLD_STRING_ARG = {'DBG_DYLD_TIMING_MAP_IMAGE': 1, 'DBG_DYLD_TIMING_DLOPEN': 1, 'DBG_DYLD_TIMING_DLOPEN_PREFLIGHT': 1,
                   'DBG_DYLD_TIMING_DLSYM': 2}
SPECIAL = set(kernel_special for kernel_special in (
    'VFS_LOOKUP', 'TRACE_STRING_GLOBAL', 'TRACE_STRING_NEWTHREAD', 'TRACE_STRING_EXEC', 'TRACE_STRING_PROC_EXIT',
    'TRACE_STRING_THREADNAME', 'TRACE_STRING_THREADNAME_PREV', 'TRACE_DATA_NEWTHREAD', 'TRACE_DATA_EXEC',
    'TRACE_DATA_THREAD_TERMINATE', 'TRACE_DATA_THREAD_TERMINATE_PID'))

_cat = None


def _src(fn):
    f = getattr(fn, 'func', fn)
    try:
        return inspect.getsource(f)
    except (OSError, TypeError):
        return ''


def catalog():
    """Facts about the live decoder tables (cached per process)."""
    global _cat
    if _cat is not None:
        return _cat
    ids = tool.ids_by_name()
    handlers = tool.all_handlers()
    fam = {}
    for f, name in tool.handler_names():
        fam[name] = f
    path_names = {}
    table = tool.codes()
    for name, fn in handlers.items():
        if fam[name] != 'bsd' or name not in ids:
            continue
        src = _src(fn)
        if 'parse_vnode' not in src:
            continue
        # how many paths does the decoder show?  probe with three distinct lookups
        p = tool.tp_mod.TracesParser(table, {}, {})
        rng_s, rng_e = [1, 2, 3, 4], [0, 0, 0, 0]
        for where, idx, kind, spec in domains.DOMAINS.get(name, ()):
            if kind == 'enum' and where == 'S':
                rng_s[idx] = domains._enum_values(spec)[0]
        op = {'k': 'sys', 'name': name, 's': rng_s, 'e': rng_e,
              'in': [{'k': 'lookup', 'path': 'p_%s_q' % c, 'vnode': 7} for c in 'abc']}
        recs = kernel.merge([kernel.expand(op, 5, ids, 'x')], [])
        shown = 0
        try:
            out = list(p.feed_generator(tool.kevent(kernel.to_bytes(r)) for r in recs))
            text = str(out[-1])
            shown = sum(1 for c in 'abc' if 'p_%s_q' % c in text)
        except Exception:
            shown = 1
        path_names[name] = max(1, shown)
    _cat = {
        'ids': ids,
        'fam': fam,
        'names': [n for n in handlers if n in ids],
        'path_names': path_names,
        'bsd': [n for n in handlers if fam[n] == 'bsd' and n in ids],
        'mach': [n for n in handlers if fam[n] == 'mach' and n in ids],
        'turnstile': [n for n in handlers if fam[n] == 'turnstile' and n in ids],
        'dyld': [n for n in handlers if fam[n] == 'dyld' and n in ids],
        'perf': [n for n in handlers if fam[n] == 'perf' and n in ids],
        'trace': [n for n in handlers if fam[n] == 'trace' and n in ids],
        'undecoded': [(k, v) for k, v in sorted(table.items()) if v not in handlers],
    }
    byname = {}
    for k, v in sorted(table.items()):
        byname.setdefault(v, []).append(k)
    # distinct codes that the table gives the same name (pairing is by code, never by name)
    _cat['same_name_codes'] = [ks for v, ks in sorted(byname.items()) if len(ks) >= 2]
    _cat['names_ids'] = sorted(ids[n] for n in _cat['names'])
    _cat['all_ids'] = set(table)
    _cat['names_set'] = set(_cat['names'])
    return _cat


def draw_len(rng, maxlen=184):
    if rng.chance(0.6):
        return min(maxlen, rng.pick(LEN_FOCUS))
    return rng.randint(0, maxlen)


def op_lookup(rng, length=None, maxlen=184):
    n = draw_len(rng, maxlen) if length is None else length
    return {'k': 'lookup', 'path': rng.text(n), 'vnode': rng.pick([0, 0, 1, 2, 3, 3]) if rng.chance(0.25) else rng.randrange(1, 1 << 48)}     # few distinct ids: different lookups often share one


def op_gstr(rng, sid, length=None, allow_empty=False):
    n = draw_len(rng, 120) if length is None else length
    return {'k': 'gstr', 'id': sid, 'dbgid': rng.randrange(0, 1 << 32), 'text': rng.text(n if allow_empty else max(1, n))}


def op_window(rng, name, ctx, context=True, nested=None):
    """A START..END window of decoder `name` with in-domain words and (if context) the records it wants inside
    or before it.  Returns a list of ops (context definitions first)."""
    cat = catalog()
    s, e = domains.draw(rng, name)
    pre = []
    inner = list(nested or [])
    if name in cat['path_names'] and context:
        k = cat['path_names'][name]
        if name == 'BSC_posix_spawn' and rng.chance(0.4):
            k = 6
        inner = [_with_between(rng, op_lookup(rng), 0.15) for _ in range(k)] + inner
    if name in DYLD_STRING_ARG:
        idx = DYLD_STRING_ARG[name]
        if context:
            sid = ctx.new_string_id()
            pre.append(op_gstr(rng, sid))
            s[idx] = sid
        else:
            s[idx] = ctx.new_string_id()
    if name == 'MACH_vmfault' and context and rng.chance(0.7):
        rf = rng.pick(['RealFaultAddressInternal', 'RealFaultAddressExternal', 'RealFaultAddressSharedCache'])
        rs, _ = domains.draw(rng, rf)
        inner.append({'k': 'one', 'name': rf, 'q': 0, 'a': rs})
    return pre + [{'k': 'sys', 'name': name, 's': s, 'e': e, 'in': inner}]


def op_single(rng, name):
    s, _ = domains.draw(rng, name)
    return {'k': 'one', 'name': name, 'q': rng.pick([0, 0, 3]), 'a': s}


def op_newthread(rng, new_tid, pid, name):
    return {'k': 'seq', 'ops': [
        {'k': 'one', 'name': 'TRACE_DATA_NEWTHREAD', 'q': 0, 'a': [new_tid, pid, rng.pick([0, 1]), rng.word()]},
        kernel.text_one('TRACE_STRING_NEWTHREAD', name)]}


def op_exec(rng, pid, name):
    return {'k': 'seq', 'ops': [
        {'k': 'one', 'name': 'TRACE_DATA_EXEC', 'q': 0, 'a': [pid, rng.word(), rng.word(), 0]},
        kernel.text_one('TRACE_STRING_EXEC', name)]}


def op_sample(rng, flags=None, thd=None, uhdr=None, udata=None, extra=None, actionid=1):
    """PERF_Event window.  thd: (pid, tid) or None; uhdr: (flags, nframes) or None; udata: list of 4-word rows."""
    inner = []
    if thd is not None:
        inner.append({'k': 'one', 'name': 'PERF_THD_Data', 'q': 0, 'a': [thd[0], thd[1], rng.word(), rng.randrange(0, 128)]})
    if uhdr is not None:
        inner.append({'k': 'one', 'name': 'PERF_STK_UHdr', 'q': 0, 'a': [uhdr[0], uhdr[1], 0, 0]})
    for row in (udata or []):
        inner.append({'k': 'one', 'name': 'PERF_STK_UData', 'q': 0, 'a': list(row)})
    for x in (extra or []):
        inner.insert(rng.randrange(len(inner) + 1), x)
    if flags is None:
        flags = (1 if thd is not None else 0) | (8 if uhdr is not None else 0)
    # (the END record's other words are whatever the sampler left there: a pending-work mask, a count, nothing)
    return {'k': 'sys', 'name': 'PERF_Event', 's': [flags, actionid, 0, 0],
            'e': [flags, actionid, rng.pick([0, 0, 1, 8, rng.word()]), rng.pick([0, 0, rng.word()])], 'in': inner}


def draw_uuid(rng):
    """Image identity, hex: usually random, sometimes the null identity (a process without a shared cache announces one),
    all ones, or one used before in this world."""
    r = rng.random()
    if r < 0.07:
        return '00' * 16
    if r < 0.1:
        return rng.pick(['ff' * 16, '00' * 15 + '01', '01' + '00' * 15, '00' * 8 + 'ab' * 8])
    return rng.randbytes(16).hex()


def op_imap(rng, uuid_hex, addr, shared=False):
    b = bytes.fromhex(uuid_hex)
    w = records.words_of(b + b'\x00' * 16)
    return {'k': 'one', 'name': 'DYLD_uuid_shared_cache_a' if shared else 'DYLD_uuid_map_a', 'q': 0,
            'a': [w[0], w[1], addr, rng.randrange(0, 1 << 32)]}


def op_crossing(rng, ctx, name_a=None, name_b=None):
    """START a, START b, END a, END b on one thread (crossing, not nested), from in-domain windows of two decoders."""
    cat = catalog()
    name_a = name_a or rng.pick(cat['mach'])
    name_b = name_b or rng.pick(cat['bsd'])
    ids = cat['ids']
    sa, ea = domains.draw(rng, name_a)
    sb, eb = domains.draw(rng, name_b)
    return {'k': 'seq', 'ops': [{'k': 'raw', 'id': ids[name_a], 'q': 1, 'a': sa}, {'k': 'raw', 'id': ids[name_b], 'q': 1, 'a': sb},
                                {'k': 'raw', 'id': ids[name_a], 'q': 2, 'a': ea}, {'k': 'raw', 'id': ids[name_b], 'q': 2, 'a': eb}]}


def op_same_name_pair(rng):
    """START of one code, END of ANOTHER code that the table gives the same name, then the real END."""
    cat = catalog()
    if not cat['same_name_codes']:
        return {'k': 'seq', 'ops': []}
    ks = rng.pick(cat['same_name_codes'])
    a, b = rng.sample(ks, 2)
    return {'k': 'seq', 'ops': [{'k': 'raw', 'id': a, 'q': 1, 'a': rng.words()}, {'k': 'raw', 'id': b, 'q': 2, 'a': rng.words()},
                                {'k': 'raw', 'id': a, 'q': 2, 'a': rng.words()}]}


def op_long_window(rng, name, n, tail_start=None):
    """One START..END window of decoder `name` holding n same-thread single records (a long-running operation)."""
    cat = catalog()
    s, e = domains.draw(rng, name)
    filler = op_single(rng, 'MACH_MKRUNNABLE')
    inner = [dict(filler) for _ in range(n)]
    return {'k': 'sys', 'name': name, 's': s, 'e': e, 'in': inner}


LONG_SIZES = [1030, 2050, 4100, 8200, 16400, 33000, 66000]


class Ctx:
    """Per-thread generation context: own string ids, own pids (disjoint across threads by construction)."""

    def __init__(self, thread_index, tid, peers=None):
        self.ti = thread_index
        self.tid = tid
        self.nstr = 0
        self.npid = 0
        # tids of the simulated threads (this one included): when given, records that NAME a thread (terminate,
        # new-thread, sampler thread-info) sometimes name a live one, not only strangers
        self.peers = peers or []

    def new_string_id(self):
        self.nstr += 1
        return (self.ti + 1) * 100000 + self.nstr

    def new_pid(self):
        self.npid += 1
        return (self.ti + 1) * 1000 + self.npid


def _with_between(rng, op, p=0.3):
    """Sometimes another emitter's record on the same thread (an interrupt handler's pair, a scheduler single) sits
    between the records of a multi-record item."""
    if rng.chance(p):
        n = len((op.get('path') or op.get('text') or '').encode())
        nchunks = 1 + max(0, (n - (24 if op['k'] == 'lookup' else 16) + 31) // 32)
        if nchunks >= 2:
            r = rng.random()
            if r < 0.4:
                s, e = domains.draw(rng, 'INTERRUPT')
                sub = {'k': 'sys', 'name': 'INTERRUPT', 's': s, 'e': e, 'in': []}
            elif r < 0.7:
                sub = op_single(rng, 'MACH_MKRUNNABLE')
            else:
                # a trace-class record with binary (non-text) arguments
                sub = {'k': 'one', 'name': rng.pick(['TRACE_DATA_THREAD_TERMINATE', 'TRACE_DATA_THREAD_TERMINATE_PID', 'TRACE_DATA_EXEC']), 'q': 0,
                       'a': [rng.pick([0x9f3a1ff, 0xfffefdfc, 0x4142434445, 800000 + rng.randrange(50)]), rng.word(), 0, 0]}
            op['between'] = {str(rng.randrange(nchunks - 1)): [sub]}
    return op


def gen_ops(rng, ctx, n_ops, mix=None, depth=0):
    """A thread program of about n_ops ops drawn from the families in `mix` (dict family -> weight)."""
    cat = catalog()
    mix = mix or {'bsd': 5, 'path': 3, 'mach': 2, 'turnstile': 1, 'dyld': 1, 'perf': 1, 'tracedom': 2, 'lookup': 1,
                  'gstr': 1, 'undecoded': 1, 'unknown': 1, 'single': 1, 'anydecodable': 1}
    fams = [f for f in sorted(mix) if mix[f] > 0]
    weights = [mix[f] for f in fams]
    ops = []
    for _ in range(n_ops):
        f = rng.choices(fams, weights)[0]
        nested = None
        if depth < 2 and rng.chance(0.25):
            nested = gen_ops(rng, ctx, rng.randint(1, 2), mix, depth + 1)
        if f == 'bsd':
            ops += op_window(rng, rng.pick(cat['bsd']), ctx, nested=nested)
        elif f == 'path':
            ops += op_window(rng, rng.pick(sorted(cat['path_names'])), ctx, nested=nested)
        elif f == 'mach':
            ops += op_window(rng, rng.pick(cat['mach']), ctx, nested=nested)
        elif f == 'turnstile':
            ops += op_window(rng, rng.pick(cat['turnstile']), ctx, nested=nested)
        elif f == 'dyld':
            ops += op_window(rng, rng.pick(cat['dyld']), ctx, nested=nested)
        elif f == 'perf':
            nfr = rng.randint(0, 9)
            rows = [[rng.randrange(1, 1 << 40) for _ in range(4)] for _ in range((nfr + 3) // 4)]
            ops.append(op_sample(rng, thd=(ctx.new_pid(), rng.pick(ctx.peers) if ctx.peers and rng.chance(0.4) else ctx.tid) if rng.chance(0.5) else None,
                                 uhdr=(rng.randrange(0, 512), nfr) if rng.chance(0.7) else None, udata=rows,
                                 flags=rng.pick([None, None, 8, 9, 1, 0, 0xa, 0x3fff]), actionid=rng.pick([1, 1, 2])))
        elif f == 'tracedom':
            r = rng.random()
            if r < 0.3:
                born = rng.pick(ctx.peers) if ctx.peers and rng.chance(0.3) else 900000 + ctx.new_pid()
                ops.append(op_newthread(rng, born, ctx.new_pid(), rng.ident()))
            elif r < 0.5:
                ops.append(op_exec(rng, ctx.new_pid(), rng.ident()))
            elif r < 0.65:
                ops.append({'k': 'tname', 'text': rng.text(rng.pick([1, 5, 31, 32, 33, 63]), multibyte=False),
                            'prev': rng.chance(0.3)})
            elif r < 0.74:
                ops.append(kernel.text_one('TRACE_STRING_PROC_EXIT', rng.ident()))
            elif r < 0.8:
                # one half of an announcement pair whose other half is not in the capture (lost, or logged before it began):
                # a data record that no string follows, a name string that no data record precedes
                kind = rng.pick(['NEWTHREAD', 'EXEC'])
                if rng.chance(0.5):
                    ops.append({'k': 'one', 'name': 'TRACE_DATA_' + kind, 'q': 0,
                                'a': [900000 + ctx.new_pid(), ctx.new_pid(), rng.pick([0, 1]), rng.word()] if kind == 'NEWTHREAD' else [ctx.new_pid(), rng.word(), rng.word(), 0]})
                else:
                    ops.append(kernel.text_one('TRACE_STRING_' + kind, rng.ident()))
            elif r < 0.9:
                victim = rng.pick(ctx.peers) if ctx.peers and rng.chance(0.6) else 800000 + rng.randrange(50)
                ops.append({'k': 'one', 'name': 'TRACE_DATA_THREAD_TERMINATE', 'q': rng.pick([0, 0, 3]),
                            'a': [victim, rng.pick([0, ctx.tid, victim, rng.word()]), rng.pick([0, rng.word()]), 0]})
            else:
                ops.append({'k': 'one', 'name': 'TRACE_DATA_THREAD_TERMINATE_PID', 'q': 0,
                            'a': [ctx.new_pid(), rng.word(), rng.pick([0, ctx.tid]), 0]})
        elif f == 'lookup':
            ops.append(_with_between(rng, op_lookup(rng)))
        elif f == 'gstr':
            ops.append(_with_between(rng, op_gstr(rng, ctx.new_string_id())))
        elif f == 'undecoded':
            # few distinct undecoded ids per world: the same id turns up on several threads, alone and as a window
            eid, _name = rng.pick(rng.undec) if getattr(rng, 'undec', None) and rng.chance(0.7) else rng.pick(cat['undecoded'])
            if rng.chance(0.5):
                ops.append({'k': 'raw', 'id': eid, 'q': rng.pick([0, 3]), 'a': rng.words()})
            else:
                ops.append({'k': 'seq', 'ops': [{'k': 'raw', 'id': eid, 'q': 1, 'a': rng.words()}] + (nested or []) +
                            [{'k': 'raw', 'id': eid, 'q': 2, 'a': rng.words()}]})
        elif f == 'unknown':
            eid = 0xf0000000 | (rng.randrange(0, 1 << 20) << 2)
            if rng.chance(0.4):
                # an id the table does not list, inside a subclass it knows well (next to the trace, BSD, mach, dyld, perf codes)
                eid = (rng.pick(cat['names_ids']) & 0xffff0000) | (rng.randrange(0x300, 0x3fff) << 2)
                if eid in cat['all_ids']:
                    eid = 0xf0000000 | (rng.randrange(0, 1 << 20) << 2)
            ops.append({'k': 'raw', 'id': eid, 'q': rng.randrange(4), 'a': rng.words()})
        elif f == 'single':
            ops.append(op_single(rng, rng.pick(cat['mach'] + cat['turnstile'] + cat['perf'][1:])))
        elif f == 'anydecodable':
            # whatever the live decoder tables hold (also names a change to the tree has just made decodable), as a single
            name = rng.pick([n for n in cat['names'] if n not in SPECIAL and n not in DYLD_STRING_ARG])
            ops.append({'k': 'one', 'name': name, 'q': rng.pick([0, 3]), 'a': domains.draw_single(rng, name)})
    return ops


SPECIAL_TIDS = [0, 0, (1 << 61) - 1, 1 << 61, 1 << 32, (1 << 63) + 1, (1 << 64) - 1, 1, 2]


def gen_threads(rng, nthreads, ops_lo=1, ops_hi=8, mix=None, peers=False):
    threads = []
    tids = [100 + ti * 17 + rng.randrange(0, 9) for ti in range(nthreads)]
    if rng.chance(0.1):
        tids[rng.randrange(nthreads)] = rng.pick(SPECIAL_TIDS)      # ids at the edges of the 64-bit range / of Python's int hashing
    rng.pool = tuple(tids) + tuple((ti + 1) * 1000 + 1 for ti in range(nthreads)) + tuple((ti + 1) * 100000 + 1 for ti in range(nthreads))
    rng.undec = tuple(rng.pick(catalog()['undecoded']) for _ in range(2))
    for ti in range(nthreads):
        ctx = Ctx(ti, tids[ti], tids if peers else None)
        threads.append({'tid': tids[ti], 'ops': gen_ops(rng, ctx, rng.randint(ops_lo, ops_hi), mix)})
    return threads


def draw_tsmode(rng, ties=True, p=0.35):
    """Timestamp shape of the merged stream: strictly increasing (None), unique but non-monotone, or with ties."""
    if not rng.chance(p):
        return None
    kind = rng.pick(['jitter', 'jitter', 'ties'] if ties else ['jitter'])
    return [kind, [rng.randint(-3, 3) for _ in range(rng.randint(3, 11))]]


def build_stream(scn, fired=None):
    """threads + schedule + faults -> merged record list (each with ts, th, o)."""
    table = tool.make_table(scn.get('table', 'bundled'))
    ids = tool.ids_by_name(table if scn.get('table', 'bundled') != 'bundled' else None)
    per = kernel.expand_threads(scn['threads'], ids)
    stream = kernel.merge(per, scn.get('schedule', []), scn.get('t0', 0x10000001), scn.get('dts'), scn.get('tsmode'))
    stream = kernel.apply_faults(stream, scn.get('faults', []), fired)
    return table, stream


def kevents_of(stream):
    return [tool.kevent(kernel.to_bytes(r)) for r in stream]


# ---------------------------------------------------------------------------------------------------------------
# dump files
# ---------------------------------------------------------------------------------------------------------------
from . import writer  # noqa: E402

LOG_OPTIONAL_STR = ['pip', 'p', 'sip', 'send', 'sub', 'cat', 'f', 'sn']
LOG_OPTIONAL_INT = ['sio', 'ttl', 'pid', 'aid', 'paid', 'cai', 'cpui', 'si', 'st', 'ss', 'lsmct', 'lemct']


def unjson(v):
    """{'$b': hex} -> bytes, recursively."""
    if isinstance(v, dict):
        if set(v) == {'$b'}:
            return bytes.fromhex(v['$b'])
        if set(v) == {'$d'}:
            import datetime
            return datetime.datetime.utcfromtimestamp(v['$d'])       # a plist <date>: naive, UTC
        return {k: unjson(x) for k, x in v.items()}
    if isinstance(v, list):
        return [unjson(x) for x in v]
    return v


def gen_tmap(rng, threads, n_extra=3, declare_p=0.7):
    """Thread map entries [tid, pid, name, tail-hex]: some of the simulated threads, some strangers, duplicates."""
    tmap = []
    for th in threads:
        if rng.chance(declare_p):
            tmap.append([th['tid'], rng.randrange(1, 5000), rng.text(rng.randint(0, 19), multibyte=False), ''])
    for _ in range(rng.randint(0, n_extra)):
        tmap.append([rng.randrange(1, 1 << rng.pick([16, 32, 63])), rng.pick([rng.randrange(0, 1 << rng.pick([8, 16, 31])), 0x80000000, 0xffffffff, 0xfffffffe, rng.randrange(1 << 31, 1 << 32), 0]),
                     rng.text(rng.pick([0, 1, 5, 18, 19]), multibyte=True)[:19], rng.pick(['', 'ff', '00aa', '416200'])])
    for t in tmap:
        if rng.chance(0.1):
            # a name that the container / formatting code itself mentions, usually together with one of the first pids
            t[2] = dict_name(rng, files=('kd_buf_parser.py', 'pykdebugparser.py', 'kevent.py')) or dict_name(rng) or t[2]
            if rng.chance(0.8):
                t[1] = rng.pick([0, 1, 2])
        elif rng.chance(0.05):
            t[1] = rng.pick([0, 1, 2])
    if tmap and rng.chance(0.3):   # duplicate key, later wins
        t = list(rng.pick(tmap))
        t[1] = rng.randrange(1, 5000)
        t[2] = rng.ident(1, 8)
        tmap.append(t)
    if len(tmap) > 1 and rng.chance(0.3):   # same pid, different name
        t = list(rng.pick(tmap))
        t[0] = rng.randrange(1, 1 << 20)
        t[2] = rng.ident(1, 8)
        tmap.append(t)
    rng.shuffle(tmap)
    # names must fit 19 bytes + NUL
    for t in tmap:
        while len(t[2].encode()) > 19:
            t[2] = t[2][:-1]
    return tmap


def tmap_bytes(tmap):
    out = []
    for tid, pid, name, tail in tmap:
        out.append((tid, pid, writer.name_field(name, bytes.fromhex(tail))))
    return out


def tmap_model(tmap):
    tp, pn = {}, {}
    for tid, pid, name, _tail in tmap:
        tp[tid & 0xffffffffffffffff] = pid & 0xffffffff
        pn[pid & 0xffffffff] = name
    return tp, pn


DANGLING = 1 << 44      # string references at or above this value are in no index


def gen_logs(rng, n, tids=None, with_tai=False):
    """n raw log records (dicts with string *indices*) + the string list."""
    strings = []

    def sidx(s):
        if s not in strings:
            strings.append(s)
        return strings.index(s)
    events = []
    pool = [rng.ident(2, 8) for _ in range(3)]
    if rng.chance(0.3):
        pool[0] = rng.pick(['2048', '7', '007', '0', '12345'])       # an executable may be called like a number
    if rng.chance(0.25):
        stem = 'com.apple.' + rng.ident(9, 9)          # 19 characters: what a thread map's 20-byte name field can hold
        pool[1] = stem + rng.ident(1, 12)
        pool[2] = rng.pick([stem, stem + rng.ident(1, 5)])
    for i in range(n):
        ev = {'cm': sidx('msg %d %s' % (i, rng.ident())), 't': rng.pick(['Log', 'Activity', 'Signpost']),
              's': rng.randrange(0, 4096), 'tid': rng.pick(tids) if tids and rng.chance(0.6) else rng.pick([0, 0, 77, 4242]),
              'ns': rng.randrange(0, 1 << 40), 'mct': rng.randrange(0, 1 << 40), 'b': {'$b': rng.randbytes(16).hex()},
              'piu': {'$b': rng.randbytes(16).hex()}, 'ud': {'sec': rng.randrange(0, 2000000000), 'usec': rng.randrange(0, 1000000)},
              'utz': {'mw': rng.randrange(-720, 720), 'dt': rng.pick([0, 1])}}
        for k in LOG_OPTIONAL_STR:
            if rng.chance(0.4):
                # names are shared between fields and records (a sender may be called like another record's process)
                ev[k] = sidx(rng.pick(pool) if rng.chance(0.6) else rng.ident())
        for k in LOG_OPTIONAL_INT:
            if rng.chance(0.3):
                ev[k] = rng.randrange(0, 1 << 31)
        if 'pid' in ev and rng.chance(0.6):
            ev['pid'] = rng.pick([1, 77, 4242])          # few distinct pids: several threads, and several names, per pid
        if rng.chance(0.3):
            ev['siu'] = {'$b': rng.randbytes(16).hex()}
        if rng.chance(0.3):
            ev['lt'] = rng.pick([0, 1, 2, 0x10, 0x11])
        if rng.chance(0.2):
            ev['bt'] = [{'iu': {'$b': rng.randbytes(16).hex()}, 'io': rng.randrange(0, 1 << 20)} for _ in range(rng.randint(0, 3))]
        if rng.chance(0.15):
            ev['lc'] = {'c': rng.randrange(100), 's': rng.randrange(100)}
        if rng.chance(0.15):
            ev['lsutz'] = {'mw': 1, 'dt': 0}
            ev['leutz'] = {'mw': 2, 'dt': 1}
            ev['lsud'] = {'sec': 1, 'usec': 2}
            ev['leud'] = {'sec': 3, 'usec': 4}
        if rng.chance(0.2):
            ev['dm'] = {'pc': 0, 's': rng.randrange(4)}
        elif rng.chance(0.15):
            if rng.chance(0.4):
                ev['dm'] = {'pc': 1, 's': 0, 'seg': [{'lp': sidx(rng.ident()), 'p': {'rs': sidx('%d'), 'w': 0, 'p': 0, 't': []},
                                                       'a': {'c': 1, 'p': 1, 'sc': 1, 'st': 2, 'or': 5}}]}
            else:
                segs = []
                for _s in range(rng.randint(1, 3)):
                    seg = {}
                    if rng.chance(0.7):
                        seg['lp'] = sidx(rng.ident())
                    if rng.chance(0.8):
                        ph = {'w': rng.randrange(0, 20), 'p': rng.randrange(0, 20)}
                        if rng.chance(0.7):
                            ph['rs'] = sidx(rng.pick(['%d', '%s', '%{public}@', '%llx']))
                        if rng.chance(0.6):
                            ph['t'] = [sidx(rng.pick(['public', 'private', 'uuid_t', rng.ident()])) for _t in range(rng.randint(0, 2))]
                        if rng.chance(0.3):
                            ph['tn'] = sidx(rng.ident())
                        if rng.chance(0.3):
                            ph['ty'] = sidx(rng.ident())
                        seg['p'] = ph
                    if rng.chance(0.85):
                        ar = {'c': rng.pick([1, 2, 2, 3])}
                        if rng.chance(0.6):
                            ar['p'] = rng.randrange(0, 4)
                        avail = rng.pick([None, None, 0, 1, 2, 3])
                        if avail is not None:
                            ar['a'] = avail
                        if ar['c'] == 1:
                            if rng.chance(0.7):
                                ar['sc'] = rng.randrange(0, 4)
                            if rng.chance(0.7):
                                ar['st'] = rng.randrange(0, 8)
                        if rng.chance(0.8):
                            if ar['c'] == 2:
                                # the representation of an object argument is a string of the index; an argument that is not
                                # available (0..2) may carry a reference the index does not list (DANGLING: never resolved)
                                ar['or'] = sidx(rng.ident()) if avail in (None, 3) or rng.chance(0.5) else DANGLING + rng.randrange(0, 1000)
                            else:
                                ar['or'] = rng.randrange(0, 1 << 40)
                        seg['a'] = ar
                    segs.append(seg)
                # (a message may end in literal text after its last placeholder: one more segment than placeholders)
                ev['dm'] = {'pc': max(1, len(segs) - 1) if rng.chance(0.3) else len(segs), 's': rng.randrange(4), 'seg': segs}
        if rng.chance(0.25):
            ns = rng.pick([2, 3, 4, 5])
            ty = {2: [1, 2, 3], 3: [0, 1, 2, 0x10, 0x11], 4: [0, 1, 2, 0x10, 0x11], 5: [1, 2, 3, 4]}[ns]
            fl = {3: [1, 2, 4, 8, 0x10, 0x80], 4: list(range(32))}.get(ns, [0, 5, 255])
            ev['ti'] = ns | (rng.pick(ty) << 8) | (rng.randrange(0, 64) << 16) | (rng.pick(fl) << 24) | (rng.randrange(0, 1 << 32) << 32)
        if with_tai and rng.chance(0.3):
            ev['tai'] = rng.randrange(0, 1 << 31)
        events.append(ev)
    if events and rng.chance(0.5):
        # one device, one time zone: every record carries the same time-zone values (and sometimes the same date)
        for ev in events[1:]:
            ev['utz'] = dict(events[0]['utz'])
            if 'lsutz' in ev and rng.chance(0.5):
                ev['lsutz'] = dict(ev['utz'])
    return events, strings


def gen_writer(rng, version, threads, nrec_hint=0, logs=True, with_tai=False):
    w = {'version': version, 'tmap': gen_tmap(rng, threads)}
    if version == 2:
        w['is64'] = rng.pick([1, 1, 0, 0xffffffff])
        w['freq'] = rng.pick([24000000, 0, 1, 1000000000, (1 << 64) - 1])
        w['pad'] = rng.pick([0, 0, 1, 7, 8, 63, 64, 128, rng.randint(0, 300), 4096 - 0x120 % 4096 if rng.chance(0.1) else 0])
        if rng.chance(0.5):
            # the header words no reader interprets hold whatever the kernel left there (a time of day, garbage, all ones)
            w['hdr12'] = rng.pick([rng.randbytes(12), b'\xff' * 12, rng.randbytes(8) + b'\xff\xff\xff\x7f', b'\x00' * 8 + rng.randbytes(4)]).hex()
        if rng.chance(0.3):
            w['hdr256'] = rng.randbytes(rng.pick([1, 16, 256])).hex()
        return w
    w['chunks'] = sorted(rng.randrange(0, nrec_hint + 1) for _ in range(rng.randint(0, 4)))
    def partial(tag):
        # bytes that look like the beginning of the scanned tag right before the tag itself
        return tag[:rng.randint(1, len(tag) - 1)] if rng.chance(0.35) else b''
    w['filler1'] = (_gen_filler(rng) + partial(writer.STACKSHOT_END)).hex()
    w['filler2'] = ((rng.randbytes(rng.randint(0, 24)) if rng.chance(0.5) else b'') + partial(writer.TAG_THREADMAP)).hex()
    w['gaps'] = [((rng.randbytes(rng.randint(0, 16)) if rng.chance(0.3) else b'') + partial(writer.TAG_EVENTS)).hex()
                 for _ in range(len(w['chunks']) + 1)]
    w['cpu_info'] = {'cpus': [rng.ident() for _ in range(rng.randint(0, 5))], 'n': rng.randrange(0, 1 << 20)}
    w['plist_fmt'] = rng.pick(['binary', 'binary', 'xml'])
    if rng.chance(0.2):
        w['padbyte'] = rng.pick(['ff', 'aa', '01', '20'])      # the bytes that align a block to 8 are whatever the writer left there
    if rng.chance(0.5):
        w['hdr'] = {'tag': rng.randrange(1 << 32), 'sub_tag': rng.randrange(1 << 32), 'length': rng.randrange(1 << 40), 'numer': rng.pick([0, 1, 125]),
                    'denom': rng.pick([0, 1, 3]), 'timestamp': rng.randrange(1 << 63), 'secs': rng.randrange(1 << 33), 'usecs': rng.randrange(1000000),
                    'mw': rng.randrange(1 << 32), 'dst': rng.pick([0, 1]), 'flags': rng.randrange(1 << 32), 'tag2': rng.randrange(1 << 32)}
    w['pad_last'] = rng.chance(0.7)
    blocks = []
    kinds = ['processes', 'images', 'kexts', 'kexts', 'dyld', 'dyld', 'codes', 'codes', 'unknown']
    for kind in kinds:
        if rng.chance(0.5):
            blocks.append(_gen_block(rng, kind))
    if logs and rng.chance(0.7):
        tids = [t['tid'] for t in threads]
        nblocks = rng.randint(1, 3)
        all_strings = []
        logblocks = []
        for _ in range(nblocks):
            evs, strs = gen_logs(rng, rng.randint(0, 3), tids, with_tai)
            # re-index into the shared string list
            remap = {}
            for i, s in enumerate(strs):
                if s not in all_strings:
                    all_strings.append(s)
                remap[i] = all_strings.index(s)
            logblocks.append({'kind': 'logs', 'payload': {'Events': _reindex(evs, remap)}, 'share': rng.chance(0.5)})
        # scramble indices so that index != position
        perm = list(range(len(all_strings)))
        rng.shuffle(perm)
        off = rng.pick([0, 1, 100])
        idxmap = {i: perm[i] + off for i in range(len(all_strings))}
        for lb in logblocks:
            lb['payload']['Events'] = _reindex(lb['payload']['Events'], idxmap)
        blocks += logblocks
        blocks.append({'kind': 'strings', 'payload': {'StringIndex': {s: idxmap[i] for i, s in enumerate(all_strings)}}})
    rng.shuffle(blocks)
    if blocks and rng.chance(0.3):
        # the same payload again later in the file (e.g. the same module list reported twice)
        import copy
        for _ in range(rng.randint(1, 2)):
            b = copy.deepcopy(rng.pick(blocks))
            if b['kind'] not in ('strings', 'logs', 'processes', 'images'):
                blocks.insert(rng.randrange(len(blocks) + 1), b)
    for kind in ('dyld', 'kexts', 'codes'):
        idx = [i for i, b in enumerate(blocks) if b['kind'] == kind]
        if len(idx) >= 2 and rng.chance(0.35):
            import copy
            blocks.insert(rng.randint(idx[1] + 1, len(blocks)), copy.deepcopy(blocks[idx[0]]))     # A, B, ..., A again
    w['blocks'] = blocks
    return w


STR_KEYS = set(['cm'] + LOG_OPTIONAL_STR)


def dm_model(dm, strings):
    """Reference decoding of a decomposed message: ('segments' list of dicts, and the set of (segment, key) whose value the
    statement leaves open).  strings: index -> text."""
    out = {'placeholder_count': dm['pc'], 'state': dm['s']}
    open_ = set()
    if not dm['pc']:
        return out, open_
    segs = []
    for si, seg in enumerate(dm.get('seg', [])):
        ps = {}
        if 'lp' in seg:
            ps['literal_prefix'] = strings[seg['lp']]
        if 'p' in seg:
            ph = {}
            if 'rs' in seg['p']:
                ph['raw_string'] = strings[seg['p']['rs']]
            if seg['p'].get('t'):
                ph['tokens'] = [strings[x] for x in seg['p']['t']]
            if 'tn' in seg['p']:
                ph['type_namespace'] = strings[seg['p']['tn']]
            if 'ty' in seg['p']:
                ph['type'] = strings[seg['p']['ty']]
            ph['width'] = seg['p']['w']
            ph['precision'] = seg['p']['p']
            ps['placeholder'] = ph
        if 'a' in seg:
            a = seg['a']
            pa = {}
            for k, nm in (('a', 'availability'), ('p', 'privacy'), ('c', 'category')):
                if k in a:
                    pa[nm] = a[k]
            if a.get('c') == 1:
                for k, nm in (('sc', 'scalar_category'), ('st', 'scalar_type')):
                    if k in a:
                        pa[nm] = a[k]
            if 'or' in a:
                if 'a' not in a or a['a'] == 3:
                    pa['object_representation'] = strings[a['or']] if a.get('c') == 2 else a['or']
                else:
                    open_.add(si)        # an argument that is not available: whether its representation is shown is not stated
            ps['arg'] = pa
        segs.append(ps)
    out['segments'] = segs
    return out, open_


def _reindex(evs, remap):
    out = []
    for ev in evs:
        ev = dict(ev)
        for k in STR_KEYS:
            if k in ev:
                ev[k] = remap[ev[k]]
        if 'dm' in ev and 'seg' in ev['dm']:
            dm = dict(ev['dm'])
            segs = []
            for seg in dm['seg']:
                seg = dict(seg)
                if 'lp' in seg:
                    seg['lp'] = remap[seg['lp']]
                if 'p' in seg:
                    p = dict(seg['p'])
                    for k in ('rs', 'tn', 'ty'):
                        if k in p:
                            p[k] = remap[p[k]]
                    if 't' in p:
                        p['t'] = [remap[x] for x in p['t']]
                    seg['p'] = p
                if 'a' in seg and seg['a'].get('c') == 2 and 'or' in seg['a'] and seg['a']['or'] < DANGLING:
                    seg['a'] = dict(seg['a'], **{'or': remap[seg['a']['or']]})
                segs.append(seg)
            dm['seg'] = segs
            ev['dm'] = dm
        out.append(ev)
    return out


def _old_capture(rng):
    """What a thread map followed by an event chunk looks like, byte for byte (the stackshot is opaque data: it may hold the
    remains of an older capture, or another trace file somebody was reading when the stackshot was taken)."""
    import struct
    tm = b''.join(writer.threadmap_entry(rng.randrange(1, 1 << 20), rng.randrange(1, 9999), writer.name_field(rng.ident(1, 8)))
                  for _ in range(rng.randint(0, 2)))
    k = rng.randint(1, 3)
    recs = b''.join(records.pack(0x5000 + 7 * i, rng.words(), rng.randrange(1, 1 << 20), rng.pick([0x40c0050, 0x40c0051, 0x1400000, 0x7000004]))
                    for i in range(k))
    return (writer.TAG_THREADMAP + struct.pack('<Q', len(tm)) + tm + rng.randbytes(rng.pick([0, 0, 8, 5])) +
            writer.TAG_EVENTS + struct.pack('<Q', 64 * k) + b'\x00' * 8 + recs)


def _gen_filler(rng):
    parts = []
    for _ in range(rng.randint(0, 4)):
        r = rng.random()
        if r < 0.08:
            parts.append(_old_capture(rng))
        elif r < 0.3:
            parts.append(rng.randbytes(rng.randint(0, 40)))
        elif r < 0.5:
            parts.append(writer.TAG_THREADMAP)
        elif r < 0.7:
            parts.append(writer.TAG_EVENTS)
        elif r < 0.8:
            parts.append(b'stackshot_out_f')
        elif r < 0.9:
            parts.append(b'stackshot_out_fl')   # replaced by the writer: a filler may not contain the end marker
        else:
            parts.append(b'\x00' * rng.randint(1, 9))
    return b''.join(parts)


def _gen_block(rng, kind):
    if kind in ('processes', 'images'):
        return {'kind': kind, 'payload': {rng.ident(): rng.randrange(1000) for _ in range(rng.randint(0, 3))}}
    if kind in ('kexts', 'dyld'):
        return {'kind': kind, 'payload': {'Binaries': [{'Name': rng.ident(), 'Addr': rng.randrange(1 << 40)}
                                                         for _ in range(rng.randint(0, 3))]}}
    if kind == 'codes':
        text = ('\ufeff' if rng.chance(0.12) else '') + ''.join('0x%x\t%s\n' % (rng.randrange(1 << 32) & ~3, rng.ident())
                                                                for _ in range(rng.randint(0, 3)))
        if text and rng.chance(0.25):
            text = text[:-rng.randint(1, 4)]          # the code file was split into blocks by size: a block may end in the middle of a line
        return {'kind': kind, 'text': text}
    blk = {'kind': 'unknown', 'hex': rng.randbytes(rng.randint(0, 20)).hex()}
    if rng.chance(0.06):
        blk['hex'] = rng.randbytes(rng.pick([2000, 4096, 9000])).hex()        # a section nobody interprets may be big
    if rng.chance(0.5):
        # a tag no section uses that shares its first or its last four bytes with one that a section does use
        known = sorted(v for k_, v in writer.TAGS.items() if k_ != 'unknown')
        t = bytearray(rng.pick(known))
        if rng.chance(0.6):
            t[4:8] = rng.pick([b'\x00\x00\x00\x00', b'\x01\x00\x00\x00', b'\x02\x00\x00\x00', b'\x00\x00\x00\x80', rng.randbytes(4)])
        else:
            t[0:4] = rng.pick([b'\x02\x80\x00\x00', b'\x13\x80\x00\x00', b'\x04\x80\x01\x00', rng.randbytes(4)])
        if rng.chance(0.15):
            t = bytearray(8)           # the all-zero tag: a tag like any other that no section uses
        if bytes(t) not in known and bytes(t) not in (writer.TAG_THREADMAP, writer.TAG_EVENTS, writer.TAG_MORE):
            blk['tag'] = bytes(t).hex()
    return blk


def block_payload(b, fmt):
    if b['kind'] == 'codes':
        return b['text'].encode()
    if b['kind'] == 'unknown':
        return bytes.fromhex(b['hex'])
    obj = unjson(b['payload'])
    if b.get('share') and b['kind'] == 'logs':
        # a writer that stores equal sub-objects once: every equal time-zone / date / loss dictionary (and equal backtrace frame)
        # is the same stored object, referenced from every record that carries it
        seen = {}

        def intern(v):
            key = repr(sorted(v.items())) if isinstance(v, dict) else None
            if key is None:
                return v
            return seen.setdefault(key, v)
        for ev in obj.get('Events', []):
            for k_ in ('utz', 'lsutz', 'leutz', 'ud', 'lsud', 'leud', 'lc'):
                if isinstance(ev.get(k_), dict):
                    ev[k_] = intern(ev[k_])
            if isinstance(ev.get('bt'), list):
                ev['bt'] = [intern(fr) if isinstance(fr, dict) else fr for fr in ev['bt']]
    return writer.plist_bytes(obj, fmt)


def build_file(w, record_bytes):
    """writer spec + list of 64-byte records -> (bytes, layout)."""
    tm = tmap_bytes(w.get('tmap', []))
    if w['version'] == 2:
        return writer.write_v2(tm, w.get('pad', 0), record_bytes, is64=w.get('is64', 1), freq=w.get('freq', 24000000),
                               opaque12=bytes.fromhex(w.get('hdr12', '')), opaque256=bytes.fromhex(w.get('hdr256', '')))
    cuts = sorted(min(max(c, 0), len(record_bytes)) for c in w.get('chunks', []))
    chunks = []
    prev = 0
    for c in cuts + [len(record_bytes)]:
        chunks.append(record_bytes[prev:c])
        prev = c
    fmt = w.get('plist_fmt', 'binary')
    blocks = [(b['kind'], block_payload(b, fmt), bytes.fromhex(b['tag']) if b.get('kind') == 'unknown' and b.get('tag') else None)
              for b in w.get('blocks', [])]
    return writer.write_v3(tm, chunks, blocks, cpu_info=w.get('cpu_info'), filler1=bytes.fromhex(w.get('filler1', '')),
                           padbyte=bytes.fromhex(w.get('padbyte', '00')),
                           filler2=bytes.fromhex(w.get('filler2', '')),
                           gaps=[bytes.fromhex(g) for g in w.get('gaps', [])], pad_last=w.get('pad_last', True),
                           plist_fmt=fmt, hdr=w.get('hdr'))


def dump_bytes(f):
    """A dump spec {'threads', 'schedule', 'faults'?, 'writer', 't0'?} -> (bytes, merged stream, table)."""
    table, stream = build_stream(f)
    rb = [kernel.to_bytes(r) for r in stream]
    data, _layout = build_file(f['writer'], rb)
    return data, stream, table


def gen_dump(rng, version=None, nthreads=None, mix=None, ops_hi=5, declare_all=True, logs=True, map_pid_base=50000):
    """A dump whose thread map declares every simulated thread with pids from a range no program uses."""
    version = version or rng.pick([2, 2, 3])
    nthreads = nthreads or rng.randint(1, 4)
    threads = gen_threads(rng, nthreads, 1, ops_hi, mix)
    ids = catalog()['ids']
    per = kernel.expand_threads(threads, ids)
    f = {'threads': threads, 'schedule': kernel.draw_schedule(rng, per, rng.pick(kernel.SHAPES)),
         't0': (rng.randrange(1, 1 << 40) << 8) | rng.randrange(1, 256)}
    w = gen_writer(rng, version, threads, sum(len(p) for p in per), logs=logs)
    tmap = []
    npids = rng.randint(1, max(1, nthreads))
    pids = [map_pid_base + i for i in range(npids)]
    names = [rng.ident(2, 10) for _ in pids]
    if len(names) >= 2 and rng.chance(0.2):
        stem = rng.ident(16, 16)
        names[0] = stem + rng.ident(1, 3)          # 17..19 characters
        names[1] = stem                            # exactly its first 16
    if rng.chance(0.25):
        names[0] = rng.pick(['2048', '7', '50001', str(map_pid_base + 1), '0'])     # a process named like a number (even like another pid)
    for i, th in enumerate(threads):
        if declare_all or rng.chance(0.7):
            j = rng.randrange(npids)
            tmap.append([th['tid'], pids[j], names[j], ''])
    for _ in range(rng.randint(0, 2)):
        tmap.append([rng.randrange(5000, 9000), map_pid_base + 100 + rng.randrange(5), rng.ident(2, 8), ''])
    # one name per pid
    seen = {}
    for t in tmap:
        t[2] = seen.setdefault(t[1], t[2])
    w['tmap'] = tmap
    if version == 2:
        w['pad'] = rng.pick([0, 8, 64])
    f['writer'] = w
    return f


# ---------------------------------------------------------------------------------------------------------------
# dictionary: constants read from the source of the tree under test
# ---------------------------------------------------------------------------------------------------------------
_dict = None


def dictionary():
    """Integer, string and bytes constants that occur in the source of the package under test (enum member values excluded).
    Thresholds, magic prefixes and special names that the code compares against are exactly the values a random generator
    would never hit; reading them from the live tree also picks up constants that a change to the tree introduces."""
    global _dict
    if _dict is not None:
        return _dict
    import ast
    import os
    ints, strs, byts = set(), set(), set()
    strs_by_file = {}
    root = os.path.join(tool.REPO, 'pykdebugparser')
    for dirpath, _dirs, files in os.walk(root):
        for fn in sorted(files):
            if not fn.endswith('.py'):
                continue
            try:
                tree = ast.parse(open(os.path.join(dirpath, fn)).read())
            except (SyntaxError, OSError):
                continue
            enum_nodes = set()
            for node in ast.walk(tree):
                if isinstance(node, ast.ClassDef) and any('Enum' in ast.dump(b) or 'Flag' in ast.dump(b) for b in node.bases):
                    for sub in ast.walk(node):
                        enum_nodes.add(id(sub))
            for node in ast.walk(tree):
                if id(node) in enum_nodes or not isinstance(node, ast.Constant):
                    continue
                v = node.value
                if isinstance(v, bool):
                    continue
                if isinstance(v, int) and 2 <= v < (1 << 64):
                    ints.add(v)
                elif isinstance(v, str) and 2 <= len(v) <= 40 and '\n' not in v and '{' not in v:
                    strs.add(v)
                    strs_by_file.setdefault(fn, set()).add(v)
                elif isinstance(v, bytes) and 1 <= len(v) <= 64:
                    byts.add(v)
    _dict = {'ints': sorted(ints), 'strs': sorted(strs), 'bytes': sorted(byts), 'strs_by_file': {k: sorted(v) for k, v in strs_by_file.items()},
             'sizes': sorted(v for v in ints if 256 <= v <= (1 << 18)),
             'bytesizes': sorted(v for v in ints if (1 << 18) < v <= (1 << 25))}
    return _dict


def dict_size(rng, cap, k=None):
    """A count right at a threshold the code names (c-1, c, c+1, c+2), capped; the largest admissible threshold half the time
    (a bound on how much is kept is usually the biggest number around)."""
    sizes = [v for v in dictionary()['sizes'] if v + 2 <= cap]
    if not sizes:
        return None
    if k is not None:
        # the k-th choice of a fixed order (rare run families are few: they must not depend on luck): largest threshold first,
        # just above it first - (largest,+1), (largest,+2), (2nd,+1), (largest,0), (2nd,+2), (3rd,+1), ...
        desc = sorted(set(sizes), reverse=True)
        offs = [1, 2, 0, -1]
        order = []
        d = 0
        while len(order) <= k and d < len(desc) + len(offs):
            for r in range(d + 1):
                if r < len(desc) and d - r < len(offs):
                    order.append(desc[r] + offs[d - r])
            d += 1
        return order[k % len(order)]
    base = sizes[-1] if rng.chance(0.5) else rng.pick(sizes)
    return base + rng.pick([-1, 0, 1, 1, 2])


def dict_name(rng, maxlen=19, files=None):
    """A name the source itself mentions (identifier-like string constant), cut to maxlen bytes; None if there is none.
    files: restrict to the string constants of these source files (the ones a property is anchored in)."""
    import re
    d = dictionary()
    pool = d['strs'] if files is None else [x for f in files for x in d['strs_by_file'].get(f, [])]
    names = [s for s in pool if re.fullmatch(r'[A-Za-z_][A-Za-z0-9_.\-]{2,}', s) and len(s) <= maxlen]
    return rng.pick(names) if names else None


def magic_record(rng):
    """64 record bytes that begin with a byte string the source compares against (file magic, section tag, marker)."""
    b = rng.pick(dictionary()['bytes'] or [b'\x00\x02\xaa\x55'])
    body = bytearray(rng.randbytes(64))
    body[:len(b)] = b[:64]
    return bytes(body)


def dict_bytesize(rng):
    """A byte count right above a (large) size the source names, or None."""
    sizes = dictionary()['bytesizes']
    return (rng.pick(sizes) + rng.pick([1, 8, 64])) if sizes else None
