"""C06 - truncated dumps: parsing terminates within a linear read budget and reports a prefix (DESIGN.md 4.6).

World: SimKernel stream -> v2/v3 writer -> file; crash points: every cut offset of the file (thorough) or structure
boundaries +-2 and a seeded sample (quick); EIO at sampled read indices; count limits through the real
print_with_count.  The oracle is self-referential (truncated run versus the same tool's run on the whole file)."""
from .. import kernel, worlds, tool
from ..disk import SimBudgetExceeded, SimRawReader, SimReader
from ..runner import digest_of
from . import common

ID = 'C06'
LEVEL = 'fault_enumeration'
RUNS = {'quick': 320, 'thorough': 1600}
CHUNK = 1
RECHECK_MOD = 53
PROBES = ['cut_in_header', 'cut_in_threadmap', 'cut_in_stackshot_scan', 'cut_inside_last_bytes_of_record', 'cut_after_complete_old_capture_in_stackshot', 'cut_in_chunkhdr', 'cut_in_record',
          'cut_at_record_boundary', 'cut_in_block', 'cut_in_pad', 'eio_fired', 'count_limit', 'v2', 'v3',
          'cut_in_event_tag_scan', 'long_lived_parser_lists_every_cut', 'cli_run', 'cli_run_with_filters', 'many_chunks', 'dump_with_orphan_ends', 'unbuffered_reader']
RULE = ('one run = one simulated dump (SimKernel threads -> merged stream -> v2/v3 writer) with every cut offset '
        '0..len (thorough) or all structure boundaries +-2 plus a seeded sample (quick), each parsed through SimReader '
        'under a read budget of 2*len+4096 calls and 3*len+4096 bytes; non-trivial = the dump holds >= 1 record and >= 1 cut landed '
        'strictly inside a record or scanner region; distinct = distinct history digest (file bytes + cut list + '
        'outcomes)')
SHAPE_MEASURE = 'distinct (container version, region of cut, outcome class) triples'
ASSUMPTIONS = ['v3 layout is the layout this parser reads (no real dump available offline)',
               'short reads before EOF are not injected (BytesIO/click.File never produce them)']


def generate(rng, index, tier):
    version = 3 if index % 2 else 2
    nthreads = rng.randint(1, 3)
    mix = {'bsd': 4, 'path': 3, 'mach': 1, 'tracedom': 2, 'perf': 1, 'dyld': 1, 'lookup': 1, 'unknown': 1}
    threads = worlds.gen_threads(rng, nthreads, 0 if rng.chance(0.1) else 1, 4, mix)
    ids = worlds.catalog()['ids']
    per = kernel.expand_threads(threads, ids)
    scn = {'threads': threads, 'schedule': kernel.draw_schedule(rng, per, rng.pick(kernel.SHAPES)),
           't0': (rng.randrange(1, 1 << 40) << 8) | rng.randrange(1, 256)}
    nrec = sum(len(p) for p in per)
    if rng.chance(0.4):
        # the dump itself starts / ends in the middle of operations (ring buffer wrapped, lost records): orphan ENDs at the
        # start and unfinished STARTs at the end - what one parse leaves in flight must never show up in another
        fl = []
        for _f in range(rng.randint(1, 3)):
            k = rng.pick(['wrap', 'drop', 'kill', 'tail'])
            if k == 'wrap':
                fl.append({'k': 'wrap', 'n': rng.randint(1, max(1, nrec // 3))})
            elif k == 'drop':
                fl.append({'k': 'drop', 'at': rng.randrange(max(1, nrec))})
            elif k == 'kill':
                fl.append({'k': 'kill', 'th': rng.randrange(nthreads), 'after': rng.randint(1, 6)})
            else:
                fl.append({'k': 'tail', 'n': rng.randint(1, max(1, nrec // 3))})
        scn['faults'] = fl
    scn['writer'] = worlds.gen_writer(rng, version, threads, nrec)
    if version == 3 and rng.chance(0.2):
        # a writer that flushes very often: many small (and empty) event chunks
        scn['writer']['chunks'] = sorted(rng.randrange(0, nrec + 1) for _ in range(rng.randint(12, 40)))
        scn['writer']['gaps'] = []
    scn['cuts'] = 'all' if tier == 'thorough' else 'sample'
    scn['cut_seed'] = rng.randrange(1 << 30)
    scn['eio'] = sorted(set(rng.randrange(1, 40 + nrec * 2) for _ in range(3)))
    scn['counts'] = [0, 1, rng.randint(0, max(1, nrec)), nrec + 5]
    scn['color'] = rng.chance(0.15)
    scn['filter_tid'] = threads[0]['tid'] if threads and rng.chance(0.2) else None
    names_ = [t[2] for t in scn['writer'].get('tmap', []) if t[2]]
    if names_ and rng.chance(0.25):
        scn['filter_process'] = rng.pick(names_)        # listings restricted to one process (by the name the thread map gives it)
    if threads and rng.chance(0.2):
        # a call that returns while its own path lookup is still being logged: START, first lookup chunk, END, the other chunks
        th = rng.pick(threads)
        nm = rng.pick(['BSC_open', 'BSC_stat64', 'BSC_access', 'BSC_chdir', 'BSC_unlink'])
        ids_ = worlds.catalog()['ids']
        if nm in ids_:
            s_, e_ = worlds.domains.draw(rng, nm)
            lk = worlds.op_lookup(rng, rng.pick([30, 60, 100]))
            lk['between'] = {'0': [{'k': 'raw', 'id': ids_[nm], 'q': 2, 'a': list(e_)}]}
            th['ops'].insert(rng.randrange(len(th['ops']) + 1), {'k': 'sys', 'name': nm, 's': s_, 'e': e_, 'in': [lk], 'noend': True})
    if threads and rng.chance(0.15):
        # a dyld call that names a string id nobody has announced yet; the announcement of that id comes later (on any thread)
        th = rng.pick(threads)
        nm = rng.pick(sorted(worlds.DYLD_STRING_ARG))
        if nm in worlds.catalog()['ids']:
            s_, e_ = worlds.domains.draw(rng, nm)
            sid = 970000 + rng.randrange(1000)
            s_[worlds.DYLD_STRING_ARG[nm]] = sid
            th['ops'].insert(rng.randrange(len(th['ops']) + 1), {'k': 'sys', 'name': nm, 's': s_, 'e': e_, 'in': []})
            rng.pick(threads)['ops'].append({'k': 'gstr', 'id': sid, 'dbgid': 0, 'text': rng.pick(['/usr/lib/libz.1.dylib', 'libfoo.dylib', '_main'])})
    if threads and rng.chance(0.2):
        # a sample whose frames lie below every image known so far, then the same thread announces an image below them; and an
        # exec announcement (data record, then the new name) by a thread of a mapped process
        th = rng.pick(threads)
        base = rng.randrange(1, 1 << 30) << 12
        th['ops'].append(worlds.op_sample(rng, flags=8, thd=None, uhdr=(1, 3), udata=[[base + 0x10, base + 0x2000, base + 5, 0]]))
        th['ops'].append(worlds.op_imap(rng, worlds.draw_uuid(rng), base))
        mapped = [t[1] for t in scn['writer'].get('tmap', []) if t[0] == th['tid']]
        th['ops'].insert(rng.randrange(len(th['ops']) + 1), worlds.op_exec(rng, mapped[0] if mapped else rng.randrange(1, 5000),
                                                                            rng.ident() if rng.chance(0.6) else rng.ident(28, 32)))      # (a name that fills the record)
        if rng.chance(0.4):
            # ... and the thread it announces names itself later; images are mapped after a launch has ended
            th['ops'].append(worlds.op_newthread(rng, threads[-1]['tid'], mapped[0] if mapped else 77, rng.ident(20, 31)))
            threads[-1]['ops'].append({'k': 'tname', 'text': rng.text(rng.pick([5, 33]), multibyte=False), 'prev': False})
            s_l = [rng.word(), rng.word(), 0, 0]
            th['ops'].append({'k': 'sys', 'name': 'DBG_DYLD_TIMING_LAUNCH_EXECUTABLE', 's': s_l, 'e': rng.words(), 'in': [worlds.op_imap(rng, worlds.draw_uuid(rng), base + 0x4000)]})
            th['ops'].append(worlds.op_imap(rng, worlds.draw_uuid(rng), base + 0x8000))
    scn['cli'] = index % 12 == 0
    scn['reuse_parser'] = rng.chance(0.25)
    scn['reader'] = 'raw' if index % 5 == 2 else 'bytesio'
    if index % 157 == 3:
        scn['bulk_records'] = worlds.dict_size(rng, 70000, k=index // 157) or 3000      # as many records as a count the source names (+-1)
        scn['cuts'] = 'sample'
        scn['cli'] = False
    if rng.chance(0.15) and threads:
        # two samples of one thread with the same action id: the first asks for a user stack but its header was lost, the second
        # is complete (what is reported for the first must not change when the second arrives)
        th = rng.pick(threads)
        aid = rng.pick([1, 2, 7])
        th['ops'].append(worlds.op_sample(rng, flags=rng.pick([8, 9]), thd=None, uhdr=None, udata=[], actionid=aid))
        if rng.chance(0.5):
            th['ops'].append(worlds.op_single(rng, 'MACH_MKRUNNABLE'))
        th['ops'].append(worlds.op_sample(rng, flags=8, thd=None, uhdr=(1, 3), udata=[[0x1000, 0x2000, 0x3000, 0]], actionid=aid))
    if rng.chance(0.15) and threads:
        # record arguments that look like a chunk header: the event tag, a small size, eight zero bytes
        th = rng.pick(threads)
        th['ops'].insert(rng.randrange(len(th['ops']) + 1), {'k': 'raw', 'id': 0x40c0010, 'q': 0, 'a': [0x1e00, 64 * rng.randint(1, 3), 0, rng.word()]})
        th['ops'].insert(rng.randrange(len(th['ops']) + 1), {'k': 'raw', 'id': 0x40c0010, 'q': 0, 'a': [rng.word(), 0x1e00, 64, 0]})
    return scn


def _views(data, table, scn, budget=True, eio=None, deep=True, long_lived=None):
    """Run the tool over `data`; returns dict view -> (items, exc-signature)."""
    out = {}
    n = len(data)
    # measured on the unchanged tree: at most 1 read call per byte and < 2 bytes read per byte of input (the last block
    # can be read twice by the aligned/unaligned Select); the allowance is 2n+4096 calls and 3n+4096 bytes
    bc = 2 * n + 4096 if budget else None
    bb = 3 * n + 4096 if budget else None

    def reader():
        if scn.get('reader') == 'raw' and eio is None:
            return SimRawReader(data, budget_calls=bc, budget_bytes=bb)       # an unbuffered stream
        return SimReader(data, budget_calls=bc, budget_bytes=bb, eio_at=eio)
    def parser_for(key, **attrs):
        # one long-lived parser object per view when the caller keeps them (it has listed other dumps before), else a new one
        if long_lived is None:
            return common.new_parser(**attrs)
        if key not in long_lived:
            long_lived[key] = common.new_parser(**attrs)
        return long_lived[key]
    p = parser_for('events', filter_tid=scn.get('filter_tid'))
    items, exc = common.drain(lambda: p.kevents(reader()))
    out['events'] = ([common.ev_tuple(e) for e in items], type(exc).__name__ if exc else None)
    # the container parser on its own (the events-then-logs stream, logs removed)
    kp = tool.kdbuf_mod.KdBufParser({}, {})
    rd = reader()
    items, exc = common.drain(lambda: kp.parse(rd))
    out['raw_events'] = ([common.ev_tuple(e) for e in items if not common.is_log(e)], type(exc).__name__ if exc else None)
    out['_reads'] = (rd.calls, rd.bytes_read, rd.eio_fired)
    if deep:
        p = parser_for('traces', filter_tid=scn.get('filter_tid'), filter_process=scn.get('filter_process'))
        snaps = []

        def pull():
            for t in p.traces(reader(), table):
                snaps.append((t, len(t.ktraces), str(t) + '\x00' + repr(t)))      # what was reported (text and every field), at the moment it was reported
                yield t
        items, exc = common.drain(pull)
        out['_changed_later'] = [(i, n0, len(t.ktraces)) for i, (t, n0, s0) in enumerate(snaps) if len(t.ktraces) != n0 or str(t) + '\x00' + repr(t) != s0]
        texts = []
        for t in items:
            try:
                texts.append([type(t).__name__, str(t)])
            except Exception as e:
                texts.append([type(t).__name__, 'str-raised:' + type(e).__name__])
        out['traces'] = (texts, type(exc).__name__ if exc else None)
        # callstack objects: what was handed out stays what it was
        p = parser_for('callstacks', filter_tid=scn.get('filter_tid'))
        cs_snaps = []

        def cs_repr(c):
            return (c.timestamp, c.tid, [(fr.address, str(fr.uuid), fr.offset) for fr in c.frames])

        def pull_cs():
            for c in p.callstacks(reader(), table):
                cs_snaps.append((c, cs_repr(c)))
                yield c
        citems, cexc = common.drain(pull_cs)
        out['callstacks'] = ([list(map(list, [r0[2]])) + [r0[0], r0[1]] for _c, r0 in cs_snaps], type(cexc).__name__ if cexc else None)
        out['_changed_later'] += [('callstack', i, 0) for i, (c, r0) in enumerate(cs_snaps) if cs_repr(c) != r0]
        p = parser_for('ftraces', color=bool(scn.get('color')), show_tid=True, filter_tid=scn.get('filter_tid'), filter_process=scn.get('filter_process'))
        items, exc = common.drain(lambda: p.formatted_traces(reader(), table))
        out['formatted_traces'] = (items, type(exc).__name__ if exc else None)
        p = parser_for('fkevents', show_tid=True, filter_tid=scn.get('filter_tid'))
        items, exc = common.drain(lambda: p.formatted_kevents(reader(), table))
        out['formatted_kevents'] = (items, type(exc).__name__ if exc else None)
        p = parser_for('fcallstacks', show_tid=True, filter_tid=scn.get('filter_tid'))
        items, exc = common.drain(lambda: p.formatted_callstacks(reader(), table))
        out['formatted_callstacks'] = (items, type(exc).__name__ if exc else None)
    return out


def _region(layout, k):
    for name, s, e in layout:
        if s <= k < e:
            return name, k - s, e - s
    return 'eof', 0, 0


def _pick_cuts(scn, layout, n):
    if scn.get('bulk_records'):
        recs = [s_ for nm, s_, e_ in layout if nm == 'record']
        picks = set([0, n, n - 1, n - 30, n - 64, n - 65])
        for k in (1, 2, 3, 5, 7):
            if recs:
                base = recs[(len(recs) * k) // 8]
                picks.update((base, base + 1, base + 33, base + 63))
        return sorted(c for c in picks if 0 <= c <= n)
    if scn['cuts'] == 'all':
        if n <= 8000:
            return list(range(0, n + 1))
        # a big file: every offset outside the record area, and inside it every offset of a record boundary +-2 plus a stride
        keep = set([0, n])
        step = (n + 7999) // 8000
        for name, s, e in layout:
            if name == 'record':
                keep.update((s - 2, s - 1, s, s + 1, s + 2, s + 63))
                keep.update(range(s, e, step))
            else:
                keep.update(range(s, e + 1))
        return sorted(c for c in keep if 0 <= c <= n)
    from ..rng import Rng
    r = Rng(scn.get('cut_seed', 0))
    cuts = set([0, n])
    for name, s, e in layout:
        for d in (-2, -1, 0, 1, 2):
            cuts.add(s + d)
        if name in ('stackshot', 'threadmap', 'chunkhdr') and e - s > 4:
            for _ in range(3):
                cuts.add(r.randrange(s, e))
    for _ in range(24):
        cuts.add(r.randrange(0, n + 1))
    return sorted(c for c in cuts if 0 <= c <= n)


def execute(scn):
    stats = {}
    hist = []
    viols = []

    def bump(k, v=1):
        stats[k] = stats.get(k, 0) + v
    fired = {}
    table, stream = worlds.build_stream(scn, fired)
    for fk, fv in fired.items():
        bump('fault:' + fk, fv)
    if fired:
        bump('probe:dump_with_orphan_ends')
    rb = [kernel.to_bytes(r) for r in stream]
    if scn.get('bulk_records'):
        import struct
        rb = rb + [struct.pack('<Q32sQIIQ', 0x20000001 + 2 * i, bytes([1 + i % 251]) * 32, 101 + i % 3, 0x40c0004 | (1 + i % 2), 0, 0) for i in range(scn['bulk_records'])]
        bump('bulk_dump')
    data, layout = worlds.build_file(scn['writer'], rb)
    n = len(data)
    ver = scn['writer']['version']
    bump('probe:v%d' % ver)
    if scn.get('reader') == 'raw':
        bump('probe:unbuffered_reader')
    try:
        kept = {} if scn.get('reuse_parser') else None     # the same parser objects list the complete dump, then every cut of it
        if kept is not None:
            bump('probe:long_lived_parser_lists_every_cut')
        full = _views(data, table, scn, long_lived=kept)
    except SimBudgetExceeded as e:
        viols.append({'tag': 'nonterminating', 'sig': 'v%d:full-file' % ver, 'detail': str(e)})
        return {'violations': viols, 'digest': digest_of(scn, ['full-hang']), 'stats': stats, 'nontrivial': False,
                'shape': 'v%d/full/hang' % ver}
    hist.append(['full', {k: [len(v[0]), v[1]] for k, v in full.items() if not k.startswith('_')}])
    if full.get('_changed_later'):
        viols.append({'tag': 'reported-trace-changed-later', 'sig': 'v%d' % ver,
                      'detail': 'traces already yielded were modified while the rest of the dump was read: (index, events then, events at the end) %r' % (full['_changed_later'][:3],)})
    if len(scn['writer'].get('chunks', [])) >= 12:
        bump('probe:many_chunks')
    shapes = set()
    cuts = _pick_cuts(scn, layout, n)
    inside = 0
    # does the stackshot hold a complete look-alike of a thread map followed by an event chunk?  (offset of its end inside it)
    complete_decoy_end = None
    f1 = bytes.fromhex(scn['writer'].get('filler1', '')) if scn['writer'].get('version') == 3 else b''
    a_ = f1.find(b'\x00\x1d\x00\x00\x00\x00\x00\x00')
    b_ = f1.find(b'\x00\x1e\x00\x00\x00\x00\x00\x00', a_ + 16) if a_ >= 0 else -1
    if b_ >= 0 and len(f1) >= b_ + 24 + 64:
        complete_decoy_end = b_ + 24 + 64
    for k in cuts:
        region, off, rlen = _region(layout, k)
        deep = (scn['cuts'] != 'all') or region != 'record' or off in (0, 1, 63) or (k % 8 == 0)
        if region == 'record':
            bump('probe:cut_at_record_boundary' if off == 0 else 'probe:cut_in_record')
            inside += 1 if off else 0
        elif region == 'stackshot':
            bump('probe:cut_in_stackshot_scan')
            if complete_decoy_end is not None and k - (k - off) > complete_decoy_end:
                bump('probe:cut_after_complete_old_capture_in_stackshot')
            inside += 1
        elif region == 'chunkhdr':
            bump('probe:cut_in_chunkhdr')
            if off < rlen - 24:
                bump('probe:cut_in_event_tag_scan')
            inside += 1
        elif region == 'threadmap':
            bump('probe:cut_in_threadmap')
        elif region in ('header', 'version'):
            bump('probe:cut_in_header')
        elif region == 'pad':
            bump('probe:cut_in_pad')
        elif region.startswith('block'):
            bump('probe:cut_in_block')
        bump('fault:truncate')
        try:
            got = _views(data[:k], table, scn, deep=deep, long_lived=kept)
            if got.get('_changed_later'):
                viols.append({'tag': 'reported-trace-changed-later', 'sig': 'v%d' % ver, 'detail': 'cut at %d: %r' % (k, got['_changed_later'][:3])})
        except SimBudgetExceeded as e:
            viols.append({'tag': 'nonterminating', 'sig': 'v%d:%s' % (ver, region),
                          'detail': 'cut at %d of %d (%s+%d): %s' % (k, n, region, off, e)})
            shapes.add('v%d/%s/hang' % (ver, region))
            hist.append([k, 'hang'])
            continue
        row = [k]
        # nothing is fabricated from a partial record: no view reports more events than whole records lie before the cut
        whole_recs = sum(1 for name_, s_, e_ in layout if name_ == 'record' and e_ <= k)
        if region == 'record' and off >= 52:
            bump('probe:cut_inside_last_bytes_of_record')      # (every reported field of the record is present, the record is not)
        for view in ('events', 'raw_events'):
            if view in got and len(got[view][0]) > whole_recs:
                viols.append({'tag': 'event-from-partial-record', 'sig': 'v%d:%s:%s' % (ver, view, 'tail' if region == 'record' and off >= 52 else region),
                              'detail': 'cut at %d of %d (%s+%d): %d events reported, only %d whole records lie before the cut' % (
                                  k, n, region, off, len(got[view][0]), whole_recs)})
                break
        for view in got:
            if view.startswith('_'):
                continue
            items, exc = got[view]
            ref = full[view][0]
            row.append([view, len(items), exc])
            if items != ref[:len(items)]:
                bad = next((i for i in range(len(items)) if i >= len(ref) or items[i] != ref[i]), None)
                viols.append({'tag': 'not-prefix', 'sig': 'v%d:%s:%s' % (ver, view, region),
                              'detail': 'cut at %d of %d (%s+%d): item %s of %d differs from the full run (%d items); got %r'
                                        % (k, n, region, off, bad, len(items), len(ref), items[bad] if bad is not None and bad < len(items) else None)})
        shapes.add('v%d/%s/%s' % (ver, region, got['events'][1] or 'ok'))
        hist.append(row)
    # EIO at the k-th read of the whole file
    for e_at in scn.get('eio', []):
        try:
            got = _views(data, table, scn, eio=e_at, deep=False)
        except SimBudgetExceeded as e:
            viols.append({'tag': 'nonterminating', 'sig': 'v%d:eio' % ver, 'detail': 'eio at read %d: %s' % (e_at, e)})
            continue
        if got['_reads'][2]:
            bump('fault:eio')
            bump('probe:eio_fired')
        # (no prefix demand under EIO: the statement speaks of cuts; an I/O error swallowed inside construct's
        #  GreedyRange is outside it.  Only bounded termination is judged here.)
        hist.append(['eio', e_at, len(got['events'][0]), got['events'][1]])
    # count limit through the real print_with_count
    for view, mk in (('formatted_kevents', lambda p, rd: p.formatted_kevents(rd, table)),
                     ('formatted_traces', lambda p, rd: p.formatted_traces(rd, table))):
        try:
            p = common.new_parser(color=False, show_tid=True)
            whole = common.capture_print(mk(p, SimReader(data)), -1)
        except Exception:
            continue
        p = common.new_parser(color=False, show_tid=True)
        listing, lexc = common.drain(lambda: mk(p, SimReader(data)))
        if lexc is None and whole != ''.join(str(x) + '\n' for x in listing):
            viols.append({'tag': 'count-limit-wrong-number', 'sig': 'v%d:%s' % (ver, view),
                          'detail': 'count=-1 printed %d lines, the listing has %d items' % (whole.count('\n'), len(listing))})
        for c in scn.get('counts', []):
            bump('probe:count_limit')
            bump('fault:stop_after')
            p = common.new_parser(color=False, show_tid=True)
            rd = SimReader(data)
            try:
                part = common.capture_print(mk(p, rd), c)
            except Exception as e:
                part = None
                viols.append({'tag': 'count-limit-raises', 'sig': 'v%d:%s' % (ver, view),
                              'detail': 'count=%d raised %r while count=-1 did not' % (c, e)})
            if part is not None:
                want_lines = whole.split('\n')[:-1][:c] if c >= 0 else whole.split('\n')[:-1]
                # formatted lines may contain newlines only for callstacks; here one item = one print call
                if not whole.startswith(part) or part.count('\n') > whole.count('\n'):
                    viols.append({'tag': 'count-limit-changes-lines', 'sig': 'v%d:%s' % (ver, view),
                                  'detail': 'count=%d output is not a prefix of the unlimited output' % c})
                elif c >= 0 and view == 'formatted_kevents' and part != ''.join(l + '\n' for l in want_lines):
                    viols.append({'tag': 'count-limit-wrong-number', 'sig': 'v%d:%s' % (ver, view),
                                  'detail': 'count=%d printed %d lines, unlimited %d' % (c, part.count('\n'), whole.count('\n'))})
            hist.append(['count', view, c, None if part is None else len(part)])
    # a share of runs through the real command-line interface on a real (temporary) file
    if scn.get('cli') and not viols:
        import os
        import tempfile
        from click.testing import CliRunner
        from pykdebugparser.__main__ import cli
        runner = CliRunner()
        with tempfile.TemporaryDirectory() as td:
            path = os.path.join(td, 'dump')

            def run_cli(blob, args):
                with open(path, 'wb') as f:
                    f.write(blob)
                res = runner.invoke(cli, args + [path] if False else [args[0], path] + args[1:])
                return res.output, type(res.exception).__name__ if res.exception is not None and not isinstance(res.exception, SystemExit) else None
            for cmd in (['kevents'], ['traces', '--no-color'], ['callstacks']):
                whole, wexc0 = run_cli(data, cmd)
                bump('probe:cli_run')
                for c in scn.get('counts', [])[:3]:
                    part, exc = run_cli(data, cmd + ['-c', str(c)])
                    if not whole.startswith(part):
                        viols.append({'tag': 'cli-count-limit-changes-lines', 'sig': cmd[0], 'detail': 'count=%d output is not a prefix of the unlimited output' % c})
                    elif wexc0 is None and cmd[0] != 'callstacks' and part.count('\n') != min(c, whole.count('\n')):
                        # (one line per item in these views: a limit of c prints exactly the first c lines - 0 prints none)
                        viols.append({'tag': 'cli-count-limit-wrong-number', 'sig': cmd[0] + (':zero' if c == 0 else ''),
                                      'detail': '-c %d printed %d lines, the unlimited listing has %d' % (c, part.count('\n'), whole.count('\n'))})
                rec_cuts = [c for c in cuts if _region(layout, c)[0] == 'record' or _region(layout, min(c + 1, n - 1))[0] == 'record']
                for k in sorted(set([c for c in cuts if c % 7 == 0][:8] + rec_cuts[::max(1, len(rec_cuts) // 10)][:12])):
                    part, exc = run_cli(data[:k], cmd)
                    bump('fault:truncate')
                    # on the SAME cut file: a count limit prints a prefix of what the unlimited run prints, and the unlimited
                    # run prints every line the library reported before it stopped
                    for c in (1, 3):
                        lim, _e = run_cli(data[:k], cmd + ['-c', str(c)])
                        if not part.startswith(lim):
                            viols.append({'tag': 'cli-count-limit-changes-lines', 'sig': cmd[0] + ':cut',
                                          'detail': 'file cut at %d: -c %d printed %r..., unlimited printed %r...' % (k, c, lim[:80], part[:80])})
                    if cmd[0] == 'kevents':
                        pl = common.new_parser()
                        libitems, _le = common.drain(lambda: pl.formatted_kevents(SimReader(data[:k])))
                        if part != ''.join(x + '\n' for x in libitems):
                            viols.append({'tag': 'cli-loses-reported-lines', 'sig': cmd[0],
                                          'detail': 'file cut at %d: the library reported %d lines before stopping, the CLI printed %d' % (k, len(libitems), part.count('\n'))})
                    if not whole.startswith(part):
                        viols.append({'tag': 'cli-not-prefix', 'sig': 'v%d:%s' % (ver, cmd[0]),
                                      'detail': 'file cut at %d: CLI printed text that is not a prefix of its output on the whole file' % k})
                hist.append(['cli', cmd[0], len(whole)])
            # the count limit together with filters: still the first lines of the unlimited listing under the same filters
            names = [t[2] for t in scn['writer'].get('tmap', []) if t[2] and not t[2].startswith('-')]
            fcmds = [['traces', '--no-color', '-cf', '4'], ['traces', '--no-color', '-sf', '0x40c'], ['kevents', '-cf', '4', '-cf', '1'],
                     ['traces', '--no-color', '-cf', '1', '-cf', '0x1f']]
            if names:
                fcmds += [['traces', '--no-color', '--process', names[0]], ['callstacks', '--process', names[-1]]]
            threads_tids = [th['tid'] for th in scn.get('threads', []) if th['tid'] < 1 << 62]
            if threads_tids:
                fcmds.append(['traces', '--no-color', '--tid', str(threads_tids[0]), '-cf', '4'])
            for cmd in fcmds:
                whole, wexc = run_cli(data, cmd)
                bump('probe:cli_run_with_filters')
                nl = whole.count('\n')
                for c in sorted(set(scn.get('counts', [])[:3] + [2, 3])):
                    part, exc = run_cli(data, cmd + ['-c', str(c)])
                    if not whole.startswith(part) or (wexc is None and cmd[0] != 'callstacks' and part.count('\n') != min(c, nl)):
                        viols.append({'tag': 'cli-count-limit-changes-lines', 'sig': ' '.join(cmd[:1] + [x for x in cmd[1:] if x.startswith('-')]),
                                      'detail': '%r: -c %d printed %d lines %r..., unlimited prints %d lines %r...' % (
                                          cmd, c, part.count('\n'), part[:80], nl, whole[:80])})
                        break
                hist.append(['cli', ' '.join(cmd), len(whole)])
    return {'violations': viols, 'digest': digest_of(scn, hist), 'stats': stats,
            'nontrivial': len(rb) >= 1 and inside >= 1, 'shape': '|'.join(sorted(shapes))[:400],
            'extent': {'records_delivered': len(rb) * len(cuts), 'cuts': len(cuts), 'file_bytes': n}}
