"""C05 - per-thread results are invariant under interleaving (DESIGN.md 4.5).

Schedule search: each thread's program is run alone through a fresh real TracesParser (baseline); the same programs
are then merged under several seeded schedules (uniform, round-robin, bursty, and 'switch at sensitive points') and
the per-thread trace sequences (type, record identities, rendered text) and the learned name tables are compared
with the baselines."""
from .. import kernel, tool, worlds
from ..runner import digest_of

ID = 'C05'
LEVEL = 'exploration'
RUNS = {'quick': 16000, 'thorough': 300000}
CHUNK = 50
PROBES = ['all_threads_one_process', 'stray_end_of_call_open_on_peer', 'pair_names_pid_zero', 'same_global_string_on_two_threads', 'undecoded_id_on_two_threads', 'huge_gap_inside_open_window', 'exit_string_repeats_learned_name', 'many_threads_pending', 'newthread_names_live_peer', 'peer_terminate_inside_open_window', 'switch_between_data_and_string', 'switch_between_data_and_string_both_threads', 'switch_between_lookup_chunks',
          'switch_between_string_chunks', 'switch_after_start', 'switch_inside_sample', 'three_or_more_threads',
          'dropped_record']
RULE = ('one run = 2..6 thread programs, each executed solo (baseline) and merged under 6 seeded schedules of different '
        'shapes; non-trivial = >= 1 conflict adjacency (records of thread A, then B, then A where the first is a '
        'data/START/chunk record whose continuation comes later); distinct = distinct digest of (programs, merge orders, '
        'outcomes)')
SHAPE_MEASURE = 'distinct conflict adjacencies: ordered triples (record kind@T1, kind@T2, kind@T1) that occurred across a thread switch'
ASSUMPTIONS = ['each simulated thread uses its own pids, new-thread tids and string ids, so by-design shared tables never decide a comparison',
               'interrupt records carry the interrupted thread\'s tid and are therefore part of that thread\'s program']

SENSITIVE = ('TRACE_DATA_NEWTHREAD', 'TRACE_DATA_EXEC', 'PERF_THD_Data', 'PERF_STK_UHdr', 'DYLD_uuid_map_a')


def _sensitive(rec, table):
    name = table.get(rec['id'])
    if name in SENSITIVE:
        return True
    if rec['q'] == 1:
        return True
    if '/c' in rec['o'] and not rec['q'] & 2:
        return True
    return False


def draw_sensitive(rng, per, table):
    """Choice sequence that prefers to switch right after a sensitive record."""
    pos = [0] * len(per)
    seq = []
    cur = rng.randrange(len(per))
    while True:
        runnable = [i for i in range(len(per)) if pos[i] < len(per[i])]
        if not runnable:
            break
        if cur not in runnable:
            cur = rng.pick(runnable)
        seq.append(runnable.index(cur))
        rec = per[cur][pos[cur]]
        pos[cur] += 1
        if len(runnable) > 1 and rng.chance(0.85 if _sensitive(rec, table) else 0.12):
            others = [i for i in runnable if i != cur]
            cur = rng.pick(others)
    return seq


def generate(rng, index, tier):
    if index % 4001 == 7:
        # one thread stays inside a call while another thread emits a very large number of records
        n = [66000, 140000][(index // 4001) % 2]
        s_, e_ = worlds.domains.draw(rng, 'BSC_getpid')
        # (the call holds a nested call that starts only after the other thread's burst: a window must not age by the
        # records of other threads - seeded change C05-r12-2)
        s2, e2 = worlds.domains.draw(rng, 'BSC_getppid')
        inner = [{'k': 'sys', 'name': 'BSC_getppid', 's': s2, 'e': e2, 'in': []}]
        x = {'tid': 100, 'ops': [{'k': 'sys', 'name': 'BSC_getpid', 's': s_, 'e': e_, 'in': inner}]}
        y = {'tid': 117, 'ops': [dict(worlds.op_single(rng, 'MACH_MKRUNNABLE')) for _ in range(n)]}
        return {'threads': [x, y], 'schedules': [[0] + [1] * n + [0] * 3, [1] * 5 + [0] * 4 + [1] * (n - 5)], 'faults': [], 'huge': n}
    if index % 499 == 3:
        # many threads: every one announces a thread/process (data record, then its name string); with a round-robin merge
        # all data records are pending at once before the first string arrives
        n = [34, 70, 140, 300, worlds.dict_size(rng, 70000, k=(index // 499) // 5) or 600][(index // 499) % 5]
        threads = []
        for ti in range(n):
            ctx = worlds.Ctx(ti, 1000 + ti)
            op = worlds.op_newthread(rng, 900000 + ti, ctx.new_pid(), rng.ident()) if rng.chance(0.5) else worlds.op_exec(rng, ctx.new_pid(), rng.ident())
            threads.append({'tid': 1000 + ti, 'ops': [op]})
        per = kernel.expand_threads(threads, worlds.catalog()['ids'])
        return {'threads': threads, 'schedules': [kernel.draw_schedule(rng, per, 'rr1'), kernel.draw_schedule(rng, per, 'uniform')], 'faults': [], 'many': n}
    focus = index % 4
    nthreads = rng.pick([2, 2, 3, 3, 4, 6])
    mix = {'bsd': 3, 'path': 4, 'mach': 2, 'turnstile': 1, 'dyld': 2, 'perf': 2, 'tracedom': 6, 'lookup': 2, 'gstr': 2,
           'undecoded': 1, 'unknown': 1, 'single': 1, 'anydecodable': 1}
    if focus == 0:
        mix = {'tracedom': 8, 'path': 2, 'bsd': 1}
    elif focus == 1:
        mix = {'path': 5, 'lookup': 3, 'gstr': 3, 'dyld': 2}
    elif focus == 2:
        # codes the tool does not decode (the same few on every thread), alone and as windows, inside and around decoded calls
        mix = {'undecoded': 4, 'bsd': 3, 'path': 2, 'mach': 2, 'unknown': 1}
    for k in list(mix):
        if rng.chance(0.15) and len(mix) > 2:
            mix[k] = 0
    if not any(mix.values()):
        mix['tracedom'] = 1
    threads = worlds.gen_threads(rng, nthreads, 1, 6, mix)
    table = tool.codes()
    ids = worlds.catalog()['ids']
    per = kernel.expand_threads(threads, ids)
    schedules = []
    for shape in ('sensitive', 'sensitive', 'uniform', 'rr1', 'bursty', 'sensitive'):
        if shape == 'sensitive':
            schedules.append(draw_sensitive(rng, per, table))
        else:
            schedules.append(kernel.draw_schedule(rng, per, shape))
    faults = []
    if rng.chance(0.3):
        allrecs = [r for p in per for r in p]
        if allrecs:
            for _ in range(rng.randint(1, 2)):
                faults.append({'k': 'drop_origin', 'o': rng.pick(allrecs)['o']})
    # perturbation population: records that NAME another simulated thread (terminate of a peer, sampler thread-info for the
    # tid a peer announces).  Their own rendering reads shared tables by design and is excluded from the text comparison;
    # what they must not do is change any OTHER trace.
    changed = False
    if rng.chance(0.12):
        # lookups that cross their call: on one thread a call returns inside its own lookup (START, first chunk, END, the rest);
        # on another the lookup begins before the call's START
        ids_ = worlds.catalog()['ids']
        for kind_ in rng.sample(['end-inside', 'start-inside'], rng.randint(1, 2)):
            th_ = rng.pick(threads)
            nm_ = rng.pick(['BSC_open', 'BSC_stat64', 'BSC_access', 'BSC_lstat64'])
            s_, e_ = worlds.domains.draw(rng, nm_)
            lk_ = worlds.op_lookup(rng, rng.pick([30, 60, 100]))
            at_ = rng.randrange(len(th_['ops']) + 1)
            if kind_ == 'end-inside':
                lk_['between'] = {'0': [{'k': 'raw', 'id': ids_[nm_], 'q': 2, 'a': list(e_)}]}
                th_['ops'].insert(at_, {'k': 'sys', 'name': nm_, 's': s_, 'e': e_, 'in': [lk_], 'noend': True})
            else:
                lk_['between'] = {'0': [{'k': 'sys', 'name': nm_, 's': s_, 'e': e_, 'in': [], 'noend': True}]}
                th_['ops'][at_:at_] = [lk_, {'k': 'raw', 'id': ids_[nm_], 'q': 2, 'a': list(e_)}]
        changed = True
    if len(threads) >= 2 and rng.chance(0.15):
        # two threads announce the same global string (same id, same text): whichever comes first, the table holds the same
        gs = [(ti, op) for ti, th in enumerate(threads) for op in th['ops'] if op.get('k') == 'gstr']
        if gs:
            import copy
            ti, op = rng.pick(gs)
            other = rng.pick([i for i in range(len(threads)) if i != ti])
            threads[other]['ops'].insert(rng.randrange(len(threads[other]['ops']) + 1), copy.deepcopy(op))
            changed = True
            faults = []      # (with a lost announcement the other thread's copy would, by design, show in this thread's text)
    pert_on = len(threads) >= 2 and rng.chance(0.4)
    if pert_on or rng.chance(0.15):
        # one pair of the world is the kernel's own: pid 0 (a valid pid that is false in a boolean test)
        pairs0 = [op for th in threads for op in th['ops'] if op.get('k') == 'seq' and len(op['ops']) == 2
                  and op['ops'][0].get('name') in ('TRACE_DATA_NEWTHREAD', 'TRACE_DATA_EXEC')]
        if pairs0 and rng.chance(0.5):
            d0 = rng.pick(pairs0)['ops'][0]
            d0['a'][1 if d0['name'] == 'TRACE_DATA_NEWTHREAD' else 0] = 0
    if pert_on:
        for _ in range(rng.randint(1, 2)):
            a, b = rng.sample(range(len(threads)), 2)
            born = [op['ops'][0]['a'][0] for op in threads[b]['ops'] if op.get('k') == 'seq' and op['ops'] and op['ops'][0].get('name') == 'TRACE_DATA_NEWTHREAD']
            r3 = rng.random()
            if rng.chance(0.12):
                # thread a's sample describes thread b (its thread-info record names b) and its user stack is flagged deferred;
                # b is sampled, completely, later on
                rows_ = [[rng.randrange(1, 1 << 40) for _w in range(4)]]
                threads[a]['ops'].insert(rng.randrange(len(threads[a]['ops']) + 1),
                                         worlds.op_sample(rng, flags=rng.pick([9, 9, 0xb]), thd=(74000 + rng.randrange(9), threads[b]['tid']),
                                                          uhdr=(rng.pick([2, 3, 0x12, 0x102]), rng.pick([4, 2, 0])), udata=rows_))
                threads[b]['ops'].append(worlds.op_sample(rng, flags=8, thd=None, uhdr=(rng.pick([0, 1, 4]), 3), udata=[[rng.randrange(1, 1 << 40) for _w in range(4)]]))
                continue
            if rng.chance(0.08):
                # thread a announces, with another pid and name, the very thread id that one of thread b's pairs announces
                nb_ = [op for op in threads[b]['ops'] if op.get('k') == 'seq' and len(op['ops']) == 2 and op['ops'][0].get('name') == 'TRACE_DATA_NEWTHREAD']
                if nb_:
                    born_ = rng.pick(nb_)['ops'][0]['a'][0]
                    threads[a]['ops'].insert(rng.randrange(len(threads[a]['ops']) + 1), worlds.op_newthread(rng, born_, 75000 + rng.randrange(99), rng.ident()))
                    continue
            if rng.chance(0.1):
                # a call of thread a returns (or takes) the very pid that thread b's announcement pair names: a number, nothing more
                pr_ = [op['ops'][0] for op in threads[b]['ops'] if op.get('k') == 'seq' and len(op['ops']) == 2 and op['ops'][0].get('name', '').startswith('TRACE_DATA')]
                if pr_:
                    d_ = rng.pick(pr_)
                    pid_ = d_['a'][1] if d_['name'] == 'TRACE_DATA_NEWTHREAD' else d_['a'][0]
                    nm_ = rng.pick([n for n in ('BSC_wait4_nocancel', 'BSC_getpid', 'BSC_getppid', 'BSC_fork', 'BSC_vfork', 'BSC_kill', 'BSC_getpgid') if n in worlds.catalog()['ids']])
                    s_, e_ = worlds.domains.draw(rng, nm_)
                    e_[0], e_[1] = 0, pid_
                    if rng.chance(0.5):
                        s_[0] = pid_
                    threads[a]['ops'].insert(rng.randrange(len(threads[a]['ops']) + 1), {'k': 'sys', 'name': nm_, 's': s_, 'e': e_, 'in': []})
                    continue
            if r3 >= 0.82:
                ids_ = worlds.catalog()['ids']
                if r3 < 0.91:
                    # thread b logs the END of a call it never started while thread a (maybe of the same process) has that very
                    # call open: prefer calls the core source files mention by name
                    special = [n for n in _core_names() if n in ids_ and n in worlds.catalog()['fam']]
                    wins = [op for op in threads[a]['ops'] if op.get('k') == 'sys' and not op.get('noend')]
                    if special and (not wins or rng.chance(0.7)):
                        nm = rng.pick(special)
                        s_, e_ = worlds.domains.draw(rng, nm)
                        k_ = worlds.catalog()['path_names'].get(nm, 0)
                        w_ = {'k': 'sys', 'name': nm, 's': s_, 'e': e_, 'in': [worlds.op_lookup(rng) for _k in range(k_)] + [worlds.op_single(rng, 'MACH_MKRUNNABLE')]}
                        threads[a]['ops'].insert(rng.randrange(len(threads[a]['ops']) + 1), w_)
                        wins = [w_]
                    if wins:
                        w_ = rng.pick(wins)
                        pert = {'k': 'raw', 'id': ids_[w_['name']], 'q': 2, 'a': list(w_['e'])}
                    else:
                        pert = worlds.op_single(rng, 'MACH_MKRUNNABLE')
                else:
                    # the first half of an announcement whose second half is outside the capture, for the pid a peer's pair names
                    pr = [op['ops'][0] for op in threads[b]['ops'] if op.get('k') == 'seq' and len(op['ops']) == 2 and op['ops'][0].get('name', '').startswith('TRACE_DATA')]
                    pid_ = (pr[0]['a'][1] if pr[0]['name'] == 'TRACE_DATA_NEWTHREAD' else pr[0]['a'][0]) if pr else 73000 + rng.randrange(9)
                    pert = {'k': 'one', 'name': rng.pick(['TRACE_DATA_EXEC', 'TRACE_DATA_EXEC', 'TRACE_DATA_NEWTHREAD']), 'q': 0, 'a': [pid_, rng.word(), rng.word(), 0]}
                    if pert['name'] == 'TRACE_DATA_NEWTHREAD':
                        pert['a'] = [880000 + rng.randrange(99), pid_, 0, rng.word()]
                threads[a if pert.get('k') != 'raw' else b]['ops'].insert(rng.randrange(len(threads[a if pert.get('k') != 'raw' else b]['ops']) + 1), pert)
                continue
            pairs_b = [(op['ops'][0]['a'][1] if op['ops'][0]['name'] == 'TRACE_DATA_NEWTHREAD' else op['ops'][0]['a'][0], op['ops'][1]['a'])
                       for op in threads[b]['ops'] if op.get('k') == 'seq' and len(op['ops']) == 2 and op['ops'][0].get('name', '').startswith('TRACE_DATA')]
            if pairs_b and r3 < 0.25:
                # thread a is sampled as belonging to the very process that thread b's pair names, and reports that name in a
                # process-exit string: unrelated to what b's own pair teaches
                pid_, namewords = rng.pick(pairs_b)
                threads[a]['ops'].insert(rng.randrange(len(threads[a]['ops']) + 1),
                                         {'k': 'one', 'name': 'TRACE_STRING_PROC_EXIT', 'q': 0, 'a': list(namewords)})
                pert = {'k': 'one', 'name': 'PERF_THD_Data', 'q': 0, 'a': [pid_, threads[a]['tid'], 0, 0]}
            elif r3 < 0.35 and [op for op in threads[b]['ops'] if op.get('k') == 'seq' and op['ops'] and op['ops'][0].get('name') == 'TRACE_DATA_NEWTHREAD']:
                nt_ = rng.pick([op for op in threads[b]['ops'] if op.get('k') == 'seq' and op['ops'] and op['ops'][0].get('name') == 'TRACE_DATA_NEWTHREAD'])['ops'][0]
                # this thread ends with the very pid and unique id that a peer's new-thread record carries
                pert = {'k': 'one', 'name': 'TRACE_DATA_THREAD_TERMINATE_PID', 'q': 0, 'a': [nt_['a'][1], nt_['a'][3], 0, 0]}
            elif r3 < 0.45:
                # a new-thread record (exec-copy flag set or not) that names a LIVE peer, emitted inside an open window of its thread
                nt = worlds.op_newthread(rng, threads[b]['tid'], 71000 + rng.randrange(99), rng.ident())
                nt['ops'][0]['a'][2] = rng.pick([0, 1, 1, 7])
                s_, e_ = worlds.domains.draw(rng, 'BSC_read')
                pert = {'k': 'sys', 'name': 'BSC_read', 's': s_, 'e': e_, 'in': [nt]}
            elif born and r3 < 0.65:
                pert = {'k': 'one', 'name': 'PERF_THD_Data', 'q': 0, 'a': [70000 + rng.randrange(99), rng.pick(born), 0, 0]}
            else:
                pert = {'k': 'one', 'name': 'TRACE_DATA_THREAD_TERMINATE', 'q': 0, 'a': [threads[b]['tid'], 0, 0, 0]}
            threads[a]['ops'].insert(rng.randrange(len(threads[a]['ops']) + 1), pert)
        changed = True
    if changed:
        per = kernel.expand_threads(threads, ids)
        schedules = [draw_sensitive(rng, per, table) for _ in range(4)] + [kernel.draw_schedule(rng, per, 'uniform'), kernel.draw_schedule(rng, per, 'rr1')]
    same_process = rng.chance(0.3)
    if same_process and rng.chance(0.6):
        # one thread of that process execs (or announces a new thread of) the process itself: the pid all threads share
        ex_ = [op['ops'][0] for th in threads for op in th['ops'] if op.get('k') == 'seq' and len(op['ops']) == 2 and op['ops'][0].get('name') in ('TRACE_DATA_EXEC', 'TRACE_DATA_NEWTHREAD')]
        if ex_:
            d_ = rng.pick(ex_)
            d_['a'][0 if d_['name'] == 'TRACE_DATA_EXEC' else 1] = 4242
    return {'threads': threads, 'schedules': schedules, 'faults': faults, 'tsmode': worlds.draw_tsmode(rng),
            'same_process': same_process}     # the parser starts from a thread map that puts all threads into one process


_core = None


def _core_names():
    """Event names that the core source files of the tree under test mention as string constants (outside the decoder tables)."""
    global _core
    if _core is None:
        d = worlds.dictionary()
        seen = []
        for f in ('traces_parser.py', 'pykdebugparser.py', 'callstacks_parser.py', 'kd_buf_parser.py', '__main__.py'):
            for x in d['strs_by_file'].get(f, []):
                if x not in seen:
                    seen.append(x)
        _core = seen
    return _core


def _deep(t, origin, depth=0):
    """Every field of a trace as plain data, with the records it holds named by where they came from (not by their timestamps,
    which a merge changes): what the object IS, beyond the text it renders to."""
    import dataclasses
    import enum
    if id(t) in origin:
        return 'rec:' + origin[id(t)]
    if dataclasses.is_dataclass(t) and depth < 4:
        return [type(t).__name__] + [[f.name, _deep(getattr(t, f.name, None), origin, depth + 1)] for f in dataclasses.fields(t)]
    if isinstance(t, (list, tuple)) and not hasattr(t, '_fields'):
        return [_deep(x, origin, depth + 1) for x in t]
    if hasattr(t, '_fields'):        # a record (namedtuple) that is not one of the stream's own: by its fields except the timestamp
        return ['nt'] + [repr(getattr(t, f)) for f in t._fields if f != 'timestamp']
    if isinstance(t, enum.Enum):
        return str(t)
    if isinstance(t, (int, str, bytes, float, bool)) or t is None:
        return repr(t)
    return type(t).__name__ + ':' + repr(t)[:80]


def _run(table, stream, init_tp=None, final=True):
    """Feed a stream to a fresh parser; returns (per-tid list of [type, origins, text], pids_names, threads_pids)."""
    tp, pn = dict(init_tp or {}), {}
    parser = tool.tp_mod.TracesParser(table, tp, pn)
    events = worlds.kevents_of(stream)
    origin = {id(e): r['o'] for e, r in zip(events, stream)}
    out = {}
    kept = []
    for ev in events:
        t = parser.feed(ev)
        if t is None:
            continue
        kt = t.ktraces
        first = kt[0] if kt else ev
        # a thread-terminate record reads, by design, tables that other threads write: its text is not compared
        text = str(t) if type(t).__name__ != 'TraceDataThreadTerminate' else ''
        entry = [type(t).__name__, [origin.get(id(e), '?') for e in kt], text, _deep(t, origin) if type(t).__name__ != 'TraceDataThreadTerminate' else None]
        out.setdefault(first.tid, []).append(entry)
        kept.append((entry, t))
    for entry, t in kept:
        # what the caller still holds when the stream has ended is part of the result: the rendering and the record list then
        if entry[0] != 'TraceDataThreadTerminate':
            entry.append([str(t), [origin.get(id(e), '?') for e in t.ktraces]] if final else None)
    return out, pn, tp


def execute(scn):
    stats = {}

    def bump(k, v=1):
        stats[k] = stats.get(k, 0) + v
    table = tool.make_table(scn.get('table', 'bundled'))
    ids = tool.ids_by_name(None)
    per = kernel.expand_threads(scn['threads'], ids)
    dropped = {f['o'] for f in scn.get('faults', []) if f['k'] == 'drop_origin'}
    if dropped:
        n0 = sum(len(p) for p in per)
        per = [[r for r in p if r['o'] not in dropped] for p in per]
        if sum(len(p) for p in per) != n0:
            bump('fault:lost_event')
            bump('probe:dropped_record')
    if len(per) >= 3:
        bump('probe:three_or_more_threads')
    if scn.get('many'):
        bump('probe:many_threads_pending')
    if scn.get('huge'):
        bump('probe:huge_gap_inside_open_window')
    exits = [kernel.records.data_of(r['a']) for p in per for r in p if table.get(r['id']) == 'TRACE_STRING_PROC_EXIT']
    if exits and any(kernel.records.data_of(r['a']) in exits for p in per for r in p if table.get(r['id']) in ('TRACE_STRING_NEWTHREAD', 'TRACE_STRING_EXEC')):
        bump('probe:exit_string_repeats_learned_name')
    tids = {th['tid'] for th in scn['threads']}
    if any(r['a'][0] in tids for p in per for r in p if table.get(r['id']) == 'TRACE_DATA_NEWTHREAD'):
        bump('probe:newthread_names_live_peer')
    gsk = {}
    und = {}
    for ti, p in enumerate(per):
        for r in p:
            nm = table.get(r['id'])
            if nm == 'TRACE_STRING_GLOBAL' and r['q'] & 1:
                gsk.setdefault(r['a'][1], set()).add(ti)
            elif nm is None or nm not in worlds.catalog()['names_set']:
                und.setdefault(r['id'], set()).add(ti)
            if nm in ('TRACE_DATA_NEWTHREAD', 'TRACE_DATA_EXEC') and r['a'][1 if nm == 'TRACE_DATA_NEWTHREAD' else 0] == 0:
                bump('probe:pair_names_pid_zero')
    started = [{r['id'] for r in p if r['q'] == 1} for p in per]
    if any(r['q'] == 2 and r['o'].endswith('/r') and any(r['id'] in started[tj] for tj in range(len(per)) if tj != ti)
           for ti, p in enumerate(per) for r in p):
        bump('probe:stray_end_of_call_open_on_peer')
    if any(len(v) >= 2 for v in gsk.values()):
        bump('probe:same_global_string_on_two_threads')
    if any(len(v) >= 2 for v in und.values()):
        bump('probe:undecoded_id_on_two_threads')
    final_ = sum(len(p_) for p_ in per) <= 4000
    init_tp = {th['tid']: 4242 for th in scn['threads']} if scn.get('same_process') else None
    if init_tp:
        bump('probe:all_threads_one_process')
    viols = []
    hist = []
    base = {}
    base_pn, base_tp = {}, {}
    tp_conflict = set()
    pn_conflict = set()
    solo_failed = False
    for ti, p in enumerate(per):
        stream = kernel.merge([p], [])
        try:
            out, pn, tp = _run(table, stream, init_tp, final_)
        except Exception as e:
            # a decoder that raises on a thread's own records is C07's subject, not an interleaving effect
            solo_failed = True
            bump('solo_raised')
            hist.append(['solo-raised', ti, type(e).__name__])
            break
        for tid, lst in out.items():
            base.setdefault(tid, []).extend(lst)
        for k, v in pn.items():
            if k in base_pn and base_pn[k] != v:
                pn_conflict.add(k)      # two threads name the same pid differently: last writer wins, by design
        base_pn.update(pn)
        for k, v in tp.items():
            if k in base_tp and base_tp[k] != v:
                tp_conflict.add(k)      # two threads declare the same tid differently: last writer wins, by design
        base_tp.update(tp)
    if solo_failed:
        return {'violations': [], 'digest': digest_of(scn, hist), 'stats': stats, 'nontrivial': False, 'shape': 'solo-raised'}
    adjs = set()
    orders = set()
    for si, sched in enumerate(scn['schedules']):
        stream = kernel.merge(per, sched, tsmode=scn.get('tsmode'))
        order = tuple(r['th'] for r in stream)
        orders.add(order)
        # conflict adjacencies and probes
        sw_ds = set()
        for i in (range(len(stream) - 1) if len(per) <= 64 and len(stream) <= 5000 else ()):
            a, b = stream[i], stream[i + 1]
            if a['th'] == b['th']:
                continue
            an = table.get(a['id'], hex(a['id']))
            # find the next record of a's thread
            nxt = next((c for c in stream[i + 1:] if c['th'] == a['th']), None)
            if nxt is None:
                continue
            if _sensitive(a, table):
                adjs.add((an, table.get(b['id'], 'x'), table.get(nxt['id'], 'x')))
            if an in ('TRACE_DATA_NEWTHREAD', 'TRACE_DATA_EXEC') and table.get(nxt['id'], '').startswith('TRACE_STRING'):
                bump('probe:switch_between_data_and_string')
                sw_ds.add(a['th'])
            if an == 'VFS_LOOKUP' and not a['q'] & 2 and nxt['id'] == a['id']:
                bump('probe:switch_between_lookup_chunks')
            if an in ('TRACE_STRING_GLOBAL', 'TRACE_STRING_THREADNAME') and not a['q'] & 2 and nxt['id'] == a['id']:
                bump('probe:switch_between_string_chunks')
            if a['q'] == 1:
                bump('probe:switch_after_start')
                if table.get(b['id']) == 'TRACE_DATA_THREAD_TERMINATE' and b['a'][0] == a['t']:
                    bump('probe:peer_terminate_inside_open_window')
            if an in ('PERF_THD_Data', 'PERF_STK_UHdr', 'PERF_STK_UData'):
                bump('probe:switch_inside_sample')
        if len(sw_ds) >= 2:
            bump('probe:switch_between_data_and_string_both_threads')
        try:
            out, pn, tp = _run(table, stream, init_tp, final_)
        except Exception as e:
            from .common import exc_sig
            viols.append({'tag': 'merged-run-raises', 'sig': exc_sig(e),
                          'detail': 'every thread decodes alone, the merge under schedule %d raises %r' % (si, e)})
            hist.append([si, 'raised', type(e).__name__])
            break
        for tid in sorted(set(base) | set(out)):
            b = base.get(tid, [])
            g = out.get(tid, [])
            if b != g:
                j = next((j for j in range(max(len(b), len(g))) if j >= len(b) or j >= len(g) or b[j] != g[j]), 0)
                what = 'text' if j < len(b) and j < len(g) and b[j][:2] == g[j][:2] else 'traces'
                tname = (g[j][0] if j < len(g) else b[j][0])
                viols.append({'tag': 'per-thread-' + what + '-differ', 'sig': tname,
                              'detail': 'schedule %d, tid %d, trace #%d: solo %r, merged %r' % (
                                  si, tid, j, b[j] if j < len(b) else None, g[j] if j < len(g) else None)})
                break
        if {k: v for k, v in pn.items() if k not in pn_conflict} != {k: v for k, v in base_pn.items() if k not in pn_conflict}:
            diff = {k: (base_pn.get(k), pn.get(k)) for k in set(base_pn) | set(pn) if base_pn.get(k) != pn.get(k) and k not in pn_conflict}
            viols.append({'tag': 'learned-names-differ', 'sig': 'pids_names',
                          'detail': 'schedule %d: pid -> (solo, merged) %r' % (si, diff)})
        if {k: v for k, v in tp.items() if k not in tp_conflict} != {k: v for k, v in base_tp.items() if k not in tp_conflict}:
            diff = {k: (base_tp.get(k), tp.get(k)) for k in set(base_tp) | set(tp) if base_tp.get(k) != tp.get(k) and k not in tp_conflict}
            viols.append({'tag': 'learned-threads-differ', 'sig': 'threads_pids',
                          'detail': 'schedule %d: tid -> (solo, merged) %r' % (si, diff)})
        hist.append([si, len(stream), sorted((str(k), len(v)) for k, v in out.items())])
        if viols:
            break
    bump('merge_orders', len(orders))
    bump('conflict_adjacencies', len(adjs))
    nrec = sum(len(p) for p in per)
    return {'violations': viols[:3], 'digest': digest_of(scn, hist), 'stats': stats, 'nontrivial': len(adjs) >= 1,
            'shape': repr(sorted(adjs)[:6]),
            'extent': {'records_delivered': nrec * (len(scn['schedules']) + 1), 'scheduler_steps': nrec * len(scn['schedules'])}}
