"""C20 - composite traces reflect exactly the records nested in their window (DESIGN.md 4.20).

The C04/C07 worlds with a focus on the three composites: page faults with 0..3 nested real-fault records of decoded
and undecoded kinds in any order; launches with any number/order of image-map and shared-cache-map records; samples
with all flag combinations x presence/absence of thread-info, header and data records - each mixed with unrelated
same-thread records, other threads scheduled in between, and lost-record faults.  Oracle: computed from the window
model's window for that END record."""
from .. import domains, kernel, model, tool, worlds
from ..runner import digest_of
from . import common
from .c05 import draw_sensitive
from .c15 import _words_to_uuid

ID = 'C20'
LEVEL = 'exploration'
RUNS = {'quick': 40000, 'thorough': 800000}
CHUNK = 100
PROBES = ['caller_table_with_look_alike_names', 'consumer_edits_returned_traces', 'long_window', 'fault_no_nested', 'fault_first_decoded', 'fault_first_undecoded', 'fault_two_decoded_kinds', 'fault_failed_result',
          'fault_other_thread_real_fault_between', 'launch_empty', 'launch_unsorted_maps', 'launch_equal_addresses',
          'launch_shared_cache', 'launch_unrelated_inside', 'sample_flag_without_record', 'sample_record_without_flag',
          'sample_both', 'sample_neither', 'lost_nested_record', 'nested_composite_in_composite']
RULE = ('one run = 1..3 threads with 1..3 composite windows each (page fault / launch / sample; 0..8 nested records of the '
        'relevant kinds in any order plus unrelated same-thread records), seeded schedule, 0..2 lost-record faults; non-trivial = '
        '>= 1 composite window with >= 2 nested relevant records or with a flag/record mismatch; distinct = history digest')
SHAPE_MEASURE = 'distinct (composite kind, nested kinds in order, flags, result) tuples'
ASSUMPTIONS = ['when the first nested real-fault record is of an undecoded kind both "absent" and "taken from the first decoded one" are accepted',
               'a failed fault (END result != 0) may show neither pid nor protection', 'ties in load address may come in any order']
REAL = ['RealFaultAddressInternal', 'RealFaultAddressExternal', 'RealFaultAddressSharedCache']
PROT_BITS = [0x01, 0x02, 0x04, 0x08, 0x10, 0x20, 0x40]


SMALL_POOL = [0, 1, 77, 4242, 600, 607, 614]


NESTED_NAMES = ('RealFaultAddressInternal', 'RealFaultAddressExternal', 'RealFaultAddressSharedCache', 'DYLD_uuid_map_a',
                'DYLD_uuid_shared_cache_a', 'PERF_THD_Data', 'PERF_STK_UHdr', 'PERF_STK_UData')


def _near_miss(rng):
    """A record whose id differs from the id of a kind the composites collect in exactly one byte (another class, another
    subclass, a neighbouring code): it is not that kind."""
    cat = worlds.catalog()
    ids = cat['ids']
    base = ids[rng.pick([n for n in NESTED_NAMES if n in ids])]
    r = rng.random()
    if r < 0.4:
        eid = (base & 0x00ffffff) | (rng.pick([2, 5, 0x21, 0xff, (base >> 24) ^ 1]) << 24)
    elif r < 0.7:
        eid = (base & 0xff00ffff) | ((((base >> 16) & 0xff) ^ rng.pick([1, 2, 0x10, 0x80])) << 16)
    else:
        eid = base + rng.pick([-4, 4, 0x100, 0x1000])
    eid &= 0xfffffffc
    if eid in cat['all_ids'] and tool.codes().get(eid) in cat['names_set']:
        eid = 0xf1320008       # (never a decodable one)
    return {'k': 'raw', 'id': eid, 'q': rng.pick([0, 0, 3]), 'a': rng.words()}


def _unrelated(rng):
    cat = worlds.catalog()
    r = rng.random()
    if r < 0.1:
        return _near_miss(rng)
    if r < 0.2:
        # a thread announcement whose pid / unique id come from the same small pool as the faults' pid words
        return {'k': 'one', 'name': 'TRACE_DATA_NEWTHREAD', 'q': 0, 'a': [900000 + rng.randrange(9), rng.pick(SMALL_POOL), rng.pick([0, 1]), rng.pick(SMALL_POOL)]}
    if r < 0.5:
        return worlds.op_single(rng, rng.pick(['MACH_MKRUNNABLE', 'MACH_SCHED', 'DecrSet', 'MACH_BLOCK']))
    if r < 0.8:
        s, e = domains.draw(rng, 'INTERRUPT')
        return {'k': 'sys', 'name': 'INTERRUPT', 's': s, 'e': e, 'in': []}
    if rng.chance(0.6):
        # a record the table names but nothing decodes, from the id neighbourhood of the composites' own nested kinds
        # (kernel-stack header/data, stack errors, other dyld and vm-fault codes)
        near = [k for k, _v in cat['undecoded'] if (k >> 16) in (0x2502, 0x2501, 0x2500, 0x1f05, 0x1f07, 0x132, 0x130)]
        if near:
            return {'k': 'raw', 'id': rng.pick(near), 'q': rng.pick([0, 0, 3]), 'a': rng.words()}
    eid, _ = rng.pick(cat['undecoded'])
    return {'k': 'raw', 'id': eid, 'q': 0, 'a': rng.words()}


def _fault(rng):
    s, e = domains.draw(rng, 'MACH_vmfault')
    inner = []
    for _ in range(rng.pick([0, 1, 1, 2, 3])):
        if rng.chance(0.25):
            inner.append({'k': 'raw', 'id': 0x132000c, 'q': 0, 'a': rng.words()})      # RealFaultAddressPurgeable
        else:
            rf = rng.pick(REAL)
            rs, _ = domains.draw(rng, rf)
            if rng.chance(0.4):
                rs[3] = rng.pick(SMALL_POOL)        # the pid word: values that also occur as unique ids / pids of thread announcements
            inner.append({'k': 'one', 'name': rf, 'q': rng.pick([0, 0, 0, 3]), 'a': rs})
    for _ in range(rng.pick([0, 0, 1, 2])):
        inner.insert(rng.randrange(len(inner) + 1), _unrelated(rng))
    if rng.chance(0.1):
        # a NONE- or ALL-qualified record of the fault's own code inside its window (it neither ends the window nor the scan)
        inner.insert(rng.randrange(len(inner) + 1), {'k': 'raw', 'id': worlds.catalog()['ids']['MACH_vmfault'], 'q': rng.pick([0, 3]), 'a': list(e)})
    return {'k': 'sys', 'name': 'MACH_vmfault', 's': s, 'e': e, 'in': inner}


def _launch(rng, depth=0):
    inner = []
    base = rng.randrange(1, 1 << 20) << 12
    for _ in range(rng.pick([0, 1, 2, 3, 5, 8])):
        addr = base + rng.pick([0, 0, 0x1000, 0x2000, 0x3000, 1, rng.randrange(0, 1 << 20)])
        m_ = worlds.op_imap(rng, worlds.draw_uuid(rng), addr, shared=rng.chance(0.35))
        m_['q'] = rng.pick([0, 0, 0, 3])          # NONE- or ALL-qualified: either way a nested single record
        inner.append(m_)
        if rng.chance(0.15):
            # the image is unmapped again inside the launch (same identity and address): the map record was still nested
            inner.append({'k': 'one', 'name': 'DYLD_uuid_unmap_a', 'q': 0, 'a': list(m_['a'])})
    for _ in range(rng.pick([0, 0, 1, 2])):
        inner.insert(rng.randrange(len(inner) + 1), _unrelated(rng))
    if rng.chance(0.1):
        # an image record with a START qualifier and, later, one with an END qualifier (another image): both are nested records
        a1 = worlds.op_imap(rng, worlds.draw_uuid(rng), base + rng.randrange(0, 1 << 16), shared=rng.chance(0.3))
        a2 = worlds.op_imap(rng, worlds.draw_uuid(rng), base + rng.randrange(0, 1 << 16), shared=a1['name'].endswith('shared_cache_a'))
        a1['q'], a2['q'] = 1, 2
        i_ = rng.randrange(len(inner) + 1)
        inner.insert(i_, a1)
        inner.insert(rng.randrange(i_ + 1, len(inner) + 1), a2)
    if rng.chance(0.12):
        # an image unmapped during the launch that was mapped before it began (no map record of it in this window)
        um = worlds.op_imap(rng, worlds.draw_uuid(rng), base + rng.pick([0, 0x1000, 0x5000, rng.randrange(0, 1 << 20)]))
        um['name'] = rng.pick(['DYLD_uuid_unmap_a', 'DYLD_uuid_unmap_a', 'DYLD_uuid_unmap_b'])
        inner.insert(rng.randrange(len(inner) + 1), um)
    if depth == 0 and rng.chance(0.15):
        inner.insert(rng.randrange(len(inner) + 1), _fault(rng))
    if rng.chance(0.2):
        # an initialiser dlopen()s something during the launch: a complete timing scope (same scope word at START and END)
        # with an image map inside - still a map record nested in the launch window
        scope = rng.word()
        inner.insert(rng.randrange(len(inner) + 1),
                     {'k': 'sys', 'name': rng.pick(['DBG_DYLD_TIMING_DLOPEN', 'DBG_DYLD_TIMING_DLCLOSE', 'DBG_DYLD_TIMING_DLADDR']), 's': [scope, 0, 0, 0], 'e': [scope, 1, 0, 0],
                      'in': [worlds.op_imap(rng, worlds.draw_uuid(rng), base + rng.randrange(0, 1 << 16), shared=rng.chance(0.3))]})
    s_ = [rng.word(), rng.word(), 0, 0]
    maps_ = [x for x in inner if x.get('name') in ('DYLD_uuid_map_a', 'DYLD_uuid_shared_cache_a')]
    if maps_ and rng.chance(0.25):
        s_[1] = rng.pick(maps_)['a'][2]        # the launched executable's own header address is one of the images' load addresses
    return {'k': 'sys', 'name': 'DBG_DYLD_TIMING_LAUNCH_EXECUTABLE', 's': s_, 'e': rng.words(), 'in': inner}


def _sample(rng, tid):
    flags = rng.pick([0, 1, 8, 9, 9, 0xd, 0x3fff, 2, 0x10 | 8, 1 | 4])
    thd = (rng.randrange(1, 9999), tid) if rng.chance(0.5) else None
    nrows = rng.randint(0, 3)
    rows = [[rng.randrange(1, 1 << 47) for _ in range(4)] for _ in range(nrows)]
    # (header flag words: any, none of the named bits, only bits nobody names, single named ones)
    uhdr = (rng.pick([rng.randrange(0, 512), rng.randrange(0, 512), 0, 0x200, 0x400, 0x100, 1, 2, 0x10, 0x20]),
            rng.pick([4 * nrows, max(0, 4 * nrows - 2), 4 * nrows + 3, 0, 0, rng.pick([1 << 63, (1 << 64) - 1, (1 << 32) + 1, 1 << 31])])) if rng.chance(0.6) else None
    extra = [_unrelated(rng) for _ in range(rng.pick([0, 0, 1, 2]))]
    if rng.chance(0.1):
        extra.append(_fault(rng))
    op = worlds.op_sample(rng, flags=flags, thd=thd, uhdr=uhdr, udata=rows, extra=extra)
    if uhdr is not None and rng.chance(0.15):
        # a second stack header somewhere in the window (before, between or after the data records): the first one counts
        op['in'].insert(rng.randrange(len(op['in']) + 1), {'k': 'one', 'name': 'PERF_STK_UHdr', 'q': 0, 'a': [rng.randrange(0, 512), rng.randrange(0, 9), 0, 0]})
    for sub in op['in']:
        if sub.get('k') == 'one' and sub.get('name', '').startswith('PERF_') and rng.chance(0.15):
            sub['q'] = 3          # an ALL-qualified nested record is still that record
    return op


def generate(rng, index, tier):
    if index % 983 == 7:
        # a launch (or fault, or sample) window holding thousands of unrelated same-thread records before its nested ones
        n = worlds.LONG_SIZES[(index // 983) % len(worlds.LONG_SIZES)]
        if (index // 983) % 3 == 2:
            n = worlds.dict_size(rng, 70000 if tier == 'quick' else 270000, k=(index // 983) // 3) or n      # right at a count the source names
        op = [_launch, _fault, lambda r: _sample(r, 600)][(index // 983) % 3](rng)
        filler = worlds.op_single(rng, 'MACH_MKRUNNABLE')
        op['in'] = [dict(filler) for _ in range(n)] + op['in']
        return {'threads': [{'tid': 600, 'ops': [op]}], 'schedule': [], 'faults': [], 'long': n}
    threads = []
    for ti in range(rng.pick([1, 2, 2, 3])):
        tid = 600 + ti * 7
        ops = []
        for _ in range(rng.randint(1, 3)):
            kind = (index + rng.randrange(3)) % 3
            ops.append([_fault, _launch, lambda r: _sample(r, tid)][kind](rng))
            if rng.chance(0.3):
                ops.append(_unrelated(rng))
        threads.append({'tid': tid, 'ops': ops})
    ids = worlds.catalog()['ids']
    per = kernel.expand_threads(threads, ids)
    shape = rng.pick(['sensitive', 'uniform', 'rr1', 'serial', 'bursty'])
    sched = draw_sensitive(rng, per, tool.codes()) if shape == 'sensitive' else kernel.draw_schedule(rng, per, shape)
    total = sum(len(p) for p in per)
    faults = []
    if rng.chance(0.3):
        for _ in range(rng.randint(1, 2)):
            faults.append({'k': 'drop', 'at': rng.randrange(max(1, total))})
    scn = {'threads': threads, 'schedule': sched, 'faults': faults, 'tsmode': worlds.draw_tsmode(rng), 'earlier_other': rng.chance(0.15),
           'tmap': rng.chance(0.4), 'consumer_edits': rng.chance(0.2)}
    if rng.chance(0.08):
        # the caller's code table names further ids, with names that merely begin like (or contain) the names of the nested kinds;
        # records of those ids sit inside the windows: they are not those kinds
        extra = {}
        for j, nm in enumerate(NESTED_NAMES):
            extra[str(0x2f00aa00 + 4 * j)] = rng.pick([nm + '32', nm + '_v2', 'X' + nm, nm[:-1], nm.lower(), nm + ' '])
        scn['table'] = {'extra': extra}
        for th in threads:
            for op in th['ops']:
                if op.get('k') == 'sys' and rng.chance(0.7):
                    for _n in range(rng.randint(1, 2)):
                        op['in'].insert(rng.randrange(len(op['in']) + 1), {'k': 'raw', 'id': 0x2f00aa00 + 4 * rng.randrange(len(NESTED_NAMES)), 'q': rng.pick([0, 0, 3]), 'a': rng.words()})
        per = kernel.expand_threads(threads, ids)
        scn['schedule'] = kernel.draw_schedule(rng, per, 'uniform')
    return scn


def _prot(bits):
    """The protection bits of THAT record, rendered by the tool's own flag decoder (how bits map to names is C11's
    subject; which record they come from is this property's)."""
    return sorted(p.value for p in tool.mach.to_vm_prot(bits))


def _consume(t, depth=0):
    """A consumer that uses a returned trace up: every list / dict it carries is emptied in place."""
    import dataclasses
    if not dataclasses.is_dataclass(t) or depth > 2:
        return
    for f in dataclasses.fields(t):
        v = getattr(t, f.name, None)
        if isinstance(v, (list, dict, set)):
            v.clear()            # (the records and traces it held are left as they are: other windows hold the same records)
        else:
            _consume(v, depth + 1)


def execute(scn):
    stats = {}

    def bump(k, v=1):
        stats[k] = stats.get(k, 0) + v
    fired = {}
    table, stream = worlds.build_stream(scn, fired)
    if scn.get('long'):
        bump('probe:long_window')
    if isinstance(scn.get('table'), dict) and scn['table'].get('extra'):
        bump('probe:caller_table_with_look_alike_names')
    if fired:
        bump('fault:lost_event', sum(fired.values()))
        bump('probe:lost_nested_record')
    ids = worlds.catalog()['ids']
    VMF, LAUNCH, PE = ids['MACH_vmfault'], ids['DBG_DYLD_TIMING_LAUNCH_EXECUTABLE'], ids['PERF_Event']
    MAP, SC = ids['DYLD_uuid_map_a'], ids['DYLD_uuid_shared_cache_a']
    THD, HDR, DATA = ids['PERF_THD_Data'], ids['PERF_STK_UHdr'], ids['PERF_STK_UData']
    decoded_real = {ids[n] for n in REAL}
    events = worlds.kevents_of(stream)
    if scn.get('earlier_other'):
        common.pollute_other_objects(table, stream)
        bump('fault:residue')
        bump('earlier_other_objects')
    tmap = {th['tid']: 5000 + i for i, th in enumerate(scn['threads'])} if scn.get('tmap') else {}
    parser = tool.tp_mod.TracesParser(table, tmap, {})
    m = model.Windows()
    viols = []
    hist = []
    shapes = set()
    nontrivial = False

    def bad(tag, sig, detail):
        viols.append({'tag': tag, 'sig': sig, 'detail': detail})
    t = None
    if scn.get('consumer_edits'):
        bump('fault:consumer_edits_results')
        bump('probe:consumer_edits_returned_traces')
    for i, (r, ev) in enumerate(zip(stream, events)):
        if t is not None and scn.get('consumer_edits'):
            _consume(t)          # the caller has used the previous trace up (its lists emptied in place): the results are the caller's
        name = table.get(r['id'])
        domain = 'trace' if name in tool.TRACE_DOMAIN_NAMES else 'ord'
        exp = m.feed(i, r['t'], r['id'], r['q'], domain)
        try:
            t = parser.feed(ev)
        except Exception as e:
            bad('raised', common.exc_sig(e), 'record %d (%s): %r' % (i, name, e))
            break
        if exp['kind'] != 'end-matched' or r['id'] not in (VMF, LAUNCH, PE):
            continue
        win = [stream[j] for j in exp['must']]
        inner = win[1:-1]
        if any(x['id'] in (VMF, LAUNCH, PE) and x['q'] == 1 for x in inner):
            bump('probe:nested_composite_in_composite')
        if t is None:
            bad('no-composite-trace', name, 'window closed at record %d produced no trace' % i)
            continue
        if r['id'] == VMF:
            real = [x for x in inner if 0x1320008 <= x['id'] <= 0x1320014]
            result = r['a'][2]
            # other threads' real-fault records between START and END of this window (must never be used)
            lo, hi = exp['must'][0], exp['must'][-1]
            if any(0x1320008 <= stream[j]['id'] <= 0x1320014 and stream[j]['t'] != r['t'] for j in range(lo, hi)):
                bump('probe:fault_other_thread_real_fault_between')
            if t.result != result:
                bad('fault-result', 'result', 'END says result %d, trace says %r' % (result, t.result))
            if result == 0 and (t.fault_type is None or t.fault_type.value != r['a'][3]):
                bad('fault-type', 'type', 'END says fault type %d, trace says %r' % (r['a'][3], t.fault_type))
            if result != 0:
                bump('probe:fault_failed_result')
            kinds = [table.get(x['id']) for x in real]
            shapes.add(('fault', tuple(kinds), result == 0))
            if len(real) >= 2:
                nontrivial = True
            if len({k for k in kinds if k in REAL}) >= 2:
                bump('probe:fault_two_decoded_kinds')
            gotp = (t.pid, None if t.caller_prot is None else sorted(p.value for p in t.caller_prot))
            absent = (None, None)
            if not real:
                bump('probe:fault_no_nested')
                ok = [absent]
            else:
                def vals(x):
                    return (x['a'][3], _prot((x['a'][1] >> 8) & 0xff))
                if real[0]['id'] in decoded_real:
                    bump('probe:fault_first_decoded')
                    ok = [vals(real[0])] if result == 0 else [absent, vals(real[0])]
                else:
                    bump('probe:fault_first_undecoded')
                    firstdec = next((x for x in real if x['id'] in decoded_real), None)
                    ok = [absent] + ([vals(firstdec)] if firstdec is not None else [])
            if gotp not in ok:
                bad('fault-pid-prot', 'first-%s' % ('none' if not real else 'decoded' if real[0]['id'] in decoded_real else 'undecoded'),
                    'nested real-fault records %r (words %r), result %d: trace pid/prot %r, acceptable %r' % (
                        kinds, [x['a'] for x in real], result, gotp, ok))
            if result == 0 and ok == [absent] and ('pid:' in str(t)):
                bad('fault-text', 'pid-shown', str(t))
            hist.append(['fault', kinds, result, gotp])
        elif r['id'] == LAUNCH:
            maps = [x for x in inner if x['id'] in (MAP, SC)]
            want = sorted((x['a'][2], _words_to_uuid(x['a'])) for x in maps)
            got = [(im.load_addr, str(im.uuid)) for im in t.uuid_map_a]
            addrs = [x['a'][2] for x in maps]
            if not maps:
                bump('probe:launch_empty')
            if addrs != sorted(addrs):
                bump('probe:launch_unsorted_maps')
            if len(set(addrs)) != len(addrs):
                bump('probe:launch_equal_addresses')
            if any(x['id'] == SC for x in maps):
                bump('probe:launch_shared_cache')
            if len(inner) > len(maps):
                bump('probe:launch_unrelated_inside')
            if len(maps) >= 2:
                nontrivial = True
            shapes.add(('launch', len(maps), sum(1 for x in maps if x['id'] == SC)))
            if sorted(got) != want:
                bad('launch-maps', 'missing' if len(got) < len(want) else 'extra' if len(got) > len(want) else 'content',
                    'window nests maps %r, trace lists %r' % (want, got))
            elif [a for a, _u in got] != sorted(a for a, _u in got):
                bad('launch-maps', 'unsorted', 'trace lists load addresses %r' % ([hex(a) for a, _u in got],))
            if t.main_executable_mh != win[0]['a'][1]:
                bad('launch-mh', 'mh', 'START word 1 is %#x, trace says %#x' % (win[0]['a'][1], t.main_executable_mh))
            hist.append(['launch', got])
        else:
            flags = win[0]['a'][0]
            thd = [x for x in inner if x['id'] == THD]
            hdr = [x for x in inner if x['id'] == HDR]
            data = [x for x in inner if x['id'] == DATA]
            want_info = bool(flags & 1) and bool(thd)
            want_stack = bool(flags & 8) and bool(hdr)
            for flag, recs in ((flags & 1, thd), (flags & 8, hdr)):
                if flag and not recs:
                    bump('probe:sample_flag_without_record')
                    nontrivial = True
                if recs and not flag:
                    bump('probe:sample_record_without_flag')
                    nontrivial = True
            bump('probe:sample_both' if want_info and want_stack else 'probe:sample_neither' if not (want_info or want_stack) else 'sample_one')
            shapes.add(('sample', flags & 9, bool(thd), bool(hdr), len(data)))
            if (t.th_info is not None) != want_info:
                bad('sample-thread-info', 'present' if t.th_info is not None else 'absent',
                    'flags %#x, %d thread-info records in window: th_info %r' % (flags, len(thd), t.th_info))
            elif want_info and (t.th_info.pid, t.th_info.tid) != (thd[0]['a'][0], thd[0]['a'][1]):
                bad('sample-thread-info', 'values', 'thread-info record says pid/tid %r, trace %r' % (thd[0]['a'][:2], (t.th_info.pid, t.th_info.tid)))
            if (t.cs_frames is not None) != want_stack:
                bad('sample-stack', 'present' if t.cs_frames is not None else 'absent',
                    'flags %#x, %d headers, %d data records in window: frames %r' % (flags, len(hdr), len(data), t.cs_frames))
            elif want_stack:
                words = [w for x in data for w in x['a']]
                if list(t.cs_frames) != words[:hdr[0]['a'][1]]:
                    bad('sample-stack', 'frames', 'header count %d, data words %r: frames %r' % (hdr[0]['a'][1], words, t.cs_frames))
            if t.actionid != win[0]['a'][1]:
                bad('sample-actionid', 'actionid', '%r vs %r' % (t.actionid, win[0]['a'][1]))
            hist.append(['sample', flags, t.th_info is not None, None if t.cs_frames is None else len(t.cs_frames)])
        if len(viols) >= 3:
            break
    return {'violations': viols[:3], 'digest': digest_of(scn, hist), 'stats': stats, 'nontrivial': nontrivial,
            'shape': repr(sorted(shapes, key=repr)), 'extent': {'records_delivered': len(stream), 'scheduler_steps': len(stream)}}
