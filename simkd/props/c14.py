"""C14 - lines name the process the dump declares for the thread; columns compose (DESIGN.md 4.14).

World: simulated dumps whose thread map declares only some of the simulated threads, with programs holding
map-updating records (new-thread + name, exec + name, terminate-pid, sampler thread-info) aimed at the other
simulated threads, merged by a seeded schedule so that a thread's windows straddle the announcements; optionally an
earlier request on another dump on the same parser object.  Oracle A (algebra, metamorphic over 2^6 column
configurations and colour): every line is the concatenation of the enabled columns' segments plus the body.
Oracle B (who): the process column lies in the admissible set of a tables model over the trace's window."""
import re

from .. import kernel, tool, worlds
from ..disk import SimReader
from ..runner import digest_of
from . import common
from .c05 import draw_sensitive

ID = 'C14'
LEVEL = 'exploration'
RUNS = {'quick': 2400, 'thorough': 12000}
CHUNK = 10
RECHECK_MOD = 41
SWITCHES = ['show_timestamp', 'show_name', 'show_func_qual', 'show_tid', 'show_process', 'show_args']
PROBES = ['cli_lines_compared', 'terminate_names_declared_thread', 'huge_thread_id', 'earlier_request_other_object', 'undeclared_thread', 'thread_declared_by_newthread_record', 'mapping_superseded_by_terminate_pid', 'mapping_superseded_by_sampler',
          'process_renamed_by_exec', 'window_straddles_update', 'earlier_request_other_dump', 'all_64_configs', 'colour_compared',
          'callstack_lines', 'log_lines', 'log_record_supersedes_earlier_declaration', 'wallclock_timestamps', 'kevents_superseded_thread']
RULE = ('one run = one simulated dump (2..4 threads, thread map declaring a subset, map-updating records aimed at other threads, seeded '
        'schedule) listed as events / traces / callstacks / logs under 14 (quick) or all 64 (thorough) column configurations, colour on and '
        'off; non-trivial = >= 1 trace line of a thread whose mapping changes inside or before its window, or of an undeclared thread; '
        'distinct = history digest')
SHAPE_MEASURE = 'distinct (listing kind, kinds of map updates present, undeclared thread present) tuples'
ASSUMPTIONS = ['any value the thread\'s mapping takes within the trace\'s window is accepted (old or new for a self-updating record)',
               'texts are printable without leading/trailing blanks (pygments strips them; not what the property is about)',
               'an unknown thread is recognised by a process column that names the tid and is not of the form name(pid)']
ANSI = re.compile(r'\x1b\[[0-9;]*m')


def _configs(tier, rng_choice):
    if tier == 'thorough':
        return [[bool(m >> i & 1) for i in range(6)] for m in range(64)]
    cfgs = [[True] * 6, [False] * 6]
    for i in range(6):
        cfgs.append([j != i for j in range(6)])
        cfgs.append([j == i for j in range(6)])
    return cfgs


def generate(rng, index, tier):
    if index % 301 == 31:
        n = worlds.dict_size(rng, 70000, k=index // 301) or 3000
        if (index // 301) % 2 == 0:
            # thread 700 announces a process, then a named count of other threads announce theirs, then 700's name arrives
            first = {'tid': 700, 'ops': [worlds.op_exec(rng, 77, 'child'), {'k': 'sys', 'name': 'BSC_getpid', 's': [0, 0, 0, 0], 'e': [0, 5, 0, 0], 'in': []}]}
            crowd = [{'tid': 100000 + i, 'ops': [{'k': 'one', 'name': 'TRACE_DATA_EXEC', 'q': 0, 'a': [200000 + i, 0, 0, 0]}]} for i in range(n)]
            dump = {'threads': [first] + crowd, 'schedule': [0] + [1] * n + [0] * 3, 't0': 0x100001,
                    'writer': {'version': 2, 'tmap': [[700, 77, 'parent', '']], 'pad': 0}}
        else:
            # a thread map with a named count of entries; the thread that emits is declared by the very last entry
            dump = {'threads': [{'tid': 700, 'ops': [{'k': 'sys', 'name': 'BSC_getpid', 's': [0, 0, 0, 0], 'e': [0, 5, 0, 0], 'in': []}]}], 'schedule': [], 't0': 0x100001,
                    'writer': {'version': 2, 'tmap': [[100000 + i, 5000 + i % 50, 'p%d' % (i % 50), ''] for i in range(n)] + [[700, 77, 'last', '']], 'pad': 0}}
        return {'dump': dump, 'colour_lines': 2, 'wallclock': False, 'all64': False, 'cli': False, 'big': n}
    nthreads = rng.randint(2, 4)
    tids = [700 + 9 * i + rng.randrange(5) for i in range(nthreads)]
    if rng.chance(0.25):
        tids[-1] = rng.pick([(1 << 40) + 5, 999999999999, (1 << 63) + 12345, 123456789012345])     # a real 64-bit thread id
    if rng.chance(0.08):
        tids[0] = 0                  # thread id 0
    declared = [t for t in tids if rng.chance(0.55)]
    pids = {t: 60000 + i for i, t in enumerate(tids)}
    zero_slot = False
    if tids[0] == 0 and rng.chance(0.6):
        # ... of process 0, which has no name: a thread-map entry that is zero in every field is still a declaration
        pids[0] = 0
        zero_slot = True
        if 0 not in declared:
            declared.append(0)
    threads = []
    for ti, tid in enumerate(tids):
        ctx = worlds.Ctx(ti, tid)
        ops = []
        for _ in range(rng.randint(1, 4)):
            r = rng.random()
            if r < 0.07:
                # a page fault of this thread with a nested real-fault record that carries a pid (decoding it declares nothing)
                s_, e_ = worlds.domains.draw(rng, 'MACH_vmfault')
                e_[2] = 0
                rs, _ = worlds.domains.draw(rng, 'RealFaultAddressInternal')
                rs[3] = rng.pick(list(pids.values()))
                ops.append({'k': 'sys', 'name': 'MACH_vmfault', 's': s_, 'e': e_, 'in': [{'k': 'one', 'name': 'RealFaultAddressInternal', 'q': 0, 'a': rs}]})
            elif r < 0.4:
                ops += worlds.op_window(rng, rng.pick(['BSC_open', 'BSC_read', 'BSC_stat64', 'MSC_mach_vm_allocate_trap', 'BSC_getpid',
                                                        'BSC_close_nocancel' if False else 'BSC_sys_close']), ctx)
            elif r < 0.6:
                target = rng.pick([t for t in tids if t != tid] or tids)
                ops.append(worlds.op_newthread(rng, target, rng.pick([pids[target], 61000 + rng.randrange(5)]), rng.ident(2, 8) if rng.chance(0.92) else ''))
            elif r < 0.66:
                ops.append(worlds.op_exec(rng, rng.pick(list(pids.values())), rng.ident(2, 8) if rng.chance(0.92) else ''))
            elif r < 0.7:
                # the two kinds of announcement crossed on one thread: both data records first, then both name strings
                target = rng.pick([t for t in tids if t != tid] or tids)
                a_ = worlds.op_newthread(rng, target, rng.pick([pids[target], 61000 + rng.randrange(5)]), rng.ident(2, 8))
                b_ = worlds.op_exec(rng, rng.pick(list(pids.values())), rng.ident(2, 8))
                order = rng.pick([[a_['ops'][0], b_['ops'][0], a_['ops'][1], b_['ops'][1]], [b_['ops'][0], a_['ops'][0], b_['ops'][1], a_['ops'][1]],
                                  [a_['ops'][0], b_['ops'][0], b_['ops'][1], a_['ops'][1]]])
                ops.append({'k': 'seq', 'ops': order})
            elif r < 0.8:
                ops.append({'k': 'one', 'name': 'TRACE_DATA_THREAD_TERMINATE_PID', 'q': 0, 'a': [61000 + rng.randrange(5), rng.word(), 0, 0]})
            elif r < 0.9:
                target = rng.pick(tids)
                nfr = rng.pick([1, 2, 3, 4, 5, 0])        # (0: a stack header that announces no frames)
                ops.append(worlds.op_sample(rng, flags=rng.pick([9, 9, 1, 8, 0xa, 0x108, 0x208, 0x1008, 0x3fff, 0x2, 0x100]), thd=(rng.pick([pids[target], 61000 + rng.randrange(5), (1 << 64) - 1, 0xffffffff, 0]), target),
                                            uhdr=(1, nfr), udata=[[rng.randrange(1, 1 << 40) for _ in range(4)] for _ in range(2)]))
                if rng.chance(0.15):
                    for sub_ in ops[-1]['in']:
                        if sub_.get('name') == 'PERF_THD_Data':
                            sub_['q'] = 1        # the thread-info record carries a START qualifier: the sample is its only decoding
            elif r < 0.94:
                # a thread-terminate record naming a (declared or undeclared) simulated thread: not a map-updating record
                ops.append({'k': 'one', 'name': 'TRACE_DATA_THREAD_TERMINATE', 'q': 0, 'a': [rng.pick(tids), 0, 0, 0]})
            elif r < 0.97:
                # a name string whose data record is not in the dump (declares nothing), or a data record never followed by its string
                ops.append(kernel.text_one(rng.pick(['TRACE_STRING_NEWTHREAD', 'TRACE_STRING_EXEC']), rng.ident(2, 8)) if rng.chance(0.6) else
                           {'k': 'one', 'name': rng.pick(['TRACE_DATA_NEWTHREAD', 'TRACE_DATA_EXEC']), 'q': 0, 'a': [rng.pick(tids), rng.pick(list(pids.values())), 0, 0]})
            else:
                ops.append(worlds.op_imap(rng, worlds.draw_uuid(rng), rng.randrange(1, 1 << 30) << 12))
        # an enclosing window that straddles other threads' announcements
        if rng.chance(0.5):
            s, e = worlds.domains.draw(rng, 'BSC_read')
            ops = [{'k': 'sys', 'name': 'BSC_read', 's': s, 'e': e, 'in': ops}]
        threads.append({'tid': tid, 'ops': ops})
    ids = worlds.catalog()['ids']
    per = kernel.expand_threads(threads, ids)
    shape = rng.pick(['sensitive', 'uniform', 'rr1', 'bursty'])
    sched = draw_sensitive(rng, per, tool.codes()) if shape == 'sensitive' else kernel.draw_schedule(rng, per, shape)
    version = rng.pick([2, 2, 3])
    w = worlds.gen_writer(rng, version, threads, sum(len(p) for p in per), logs=True)
    for b_ in w.get('blocks', []):
        if b_['kind'] == 'logs' and len(b_['payload']['Events']) >= 2 and rng.chance(0.6):
            # several log records of one thread that declare different processes for it, one after the other
            t_ = rng.pick([x for x in tids if x] or [4242])
            for ev_ in b_['payload']['Events']:
                if 'p' in ev_:
                    ev_['tid'] = t_
                    ev_['pid'] = rng.pick([1, 77, 4242, pids.get(t_, 5)])
    names = {0: ''} if zero_slot else {}
    w['tmap'] = [[t, pids[t], names.setdefault(pids[t], rng.ident(2, 12) if rng.chance(0.9) else rng.pick([' ', '']) + rng.ident(2, 9) + rng.pick([' ', '  ', '\t'])),
                  rng.pick(['', '', 'ff41', '726f787900', '00414243'])] for t in declared]
    if rng.chance(0.3):
        w['tmap'].append([rng.randrange(5000, 6000), 62000, rng.ident(2, 8), ''])
    if version == 2:
        w['pad'] = rng.pick([0, 64])
    dump = {'threads': threads, 'schedule': sched, 'writer': w, 't0': (rng.randrange(1, 1 << 40) << 8) | 1}
    scn = {'dump': dump, 'colour_lines': 6, 'wallclock': rng.chance(0.3), 'all64': tier == 'thorough' or index % 8 == 0, 'cli': index % 16 == 3}
    if rng.chance(0.25):
        # an earlier request on ANOTHER PyKdebugParser object in the same process whose dump ends with unanswered data records of
        # these very threads, naming pids this dump uses (nothing of it may reach this dump's lines)
        scn['earlier_other'] = [[t, rng.pick(list(pids.values()))] for t in tids]
    if rng.chance(0.3):
        scn['earlier'] = worlds.gen_dump(rng, version=2, nthreads=2, mix={'bsd': 2, 'tracedom': 3}, declare_all=True, logs=False)
        # the earlier dump declares the tids this dump leaves undeclared
        scn['earlier']['writer']['tmap'] += [[t, 63000, 'stale', ''] for t in tids if t not in declared]
    return scn


def _tables_states(tmap, stream, table, reapply=False):
    """States of (threads_pids, pids_names) after each record, as the statement describes the updates.
    reapply: a sampler thread-info record counts again at the END of its sample (the statement does not say whether the
    record or the sample it belongs to is the update; both readings are accepted)."""
    tp, pn = worlds.tmap_model(tmap)
    states = [(dict(tp), dict(pn))]
    last_new, last_exec = {}, {}
    kinds = set()
    open_samples = {}
    for r in stream:
        name = table.get(r['id'])
        if name == 'PERF_Event':
            if r['q'] == 1:
                open_samples[r['t']] = [r['a'][0], None, None]
            elif r['q'] == 2 and r['t'] in open_samples:
                flags, first, first_q = open_samples.pop(r['t'])
                # the sample applies the first thread-info record of its window when it closes.  For a record that was
                # applied on its own already (NONE / ALL qualified) the statement leaves open whether the sample counts again
                # (reapply); a START-qualified one is never reported on its own, so the sample is its only application
                if flags & 1 and first is not None and (reapply or first_q == 1):
                    tp[first[1]] = first[0]
                    if first_q == 1:
                        kinds.add('sampler')
        if name == 'PERF_THD_Data' and r['t'] in open_samples and open_samples[r['t']][1] is None:
            open_samples[r['t']][1] = (r['a'][0], r['a'][1])
            open_samples[r['t']][2] = r['q']
        if r['q'] in (0, 3):
            if name == 'TRACE_DATA_NEWTHREAD':
                tp[r['a'][0]] = r['a'][1]
                last_new[r['t']] = r['a'][1]
                kinds.add('newthread')
            elif name == 'TRACE_STRING_NEWTHREAD' and r['t'] in last_new:
                pn[last_new.pop(r['t'])] = kernel.records.data_of(r['a']).replace(b'\x00', b'').decode()
            elif name == 'TRACE_DATA_EXEC':
                last_exec[r['t']] = r['a'][0]
            elif name == 'TRACE_STRING_EXEC' and r['t'] in last_exec:
                pn[last_exec.pop(r['t'])] = kernel.records.data_of(r['a']).replace(b'\x00', b'').decode()
                kinds.add('exec')
            elif name == 'TRACE_DATA_THREAD_TERMINATE_PID':
                tp[r['t']] = r['a'][0]
                kinds.add('termpid')
            elif name == 'PERF_THD_Data':
                tp[r['a'][1]] = r['a'][0]
                kinds.add('sampler')
            elif name == 'TRACE_DATA_THREAD_TERMINATE' and r['a'][0] in tp:
                kinds.add('terminate')
        states.append((dict(tp), dict(pn)))
    return states, kinds


def _proc_text(state, tid):
    tp, pn = state
    if tid not in tp:
        return None
    return '%s(%d)' % (pn.get(tp[tid], ''), tp[tid])


def _mk(cfg, colour, scn):
    p = tool.pk_mod.PyKdebugParser()
    for sw, v in zip(SWITCHES, cfg):
        setattr(p, sw, v)
    p.color = colour
    if scn.get('wallclock'):
        import datetime
        p.numer, p.denom, p.mach_absolute_time, p.usecs_since_epoch = 125, 3, 1000, 1600000000000000
        p.timezone = datetime.timezone.utc
    return p


def execute(scn):
    stats = {}

    def bump(k, v=1):
        stats[k] = stats.get(k, 0) + v
    cfgs = _configs('thorough' if scn.get('all64') else 'quick', None)
    if scn.get('big'):
        cfgs = [[True] * 6, [False] * 6] + [[j == i for j in range(6)] for i in range(6)]
    if len(cfgs) == 64:
        bump('probe:all_64_configs')
    if scn.get('wallclock'):
        bump('probe:wallclock_timestamps')
    dump = scn['dump']
    data, stream, table = worlds.dump_bytes(dump)
    earlier = worlds.dump_bytes(scn['earlier'])[0] if scn.get('earlier') else None
    if any(th['tid'] >= 10 ** 11 for th in dump['threads']):
        bump('probe:huge_thread_id')
    if scn.get('earlier_other'):
        bump('probe:earlier_request_other_object')
        bump('fault:residue')
        eo_threads = [{'tid': t, 'ops': [{'k': 'one', 'name': 'TRACE_DATA_NEWTHREAD', 'q': 0, 'a': [t, pid, 0, 0]},
                                          {'k': 'one', 'name': 'TRACE_DATA_EXEC', 'q': 0, 'a': [pid, 1, 2, 0]},
                                          {'k': 'sys', 'name': 'BSC_read', 's': [1, 2, 3, 4], 'e': [0, 0, 0, 0], 'in': [], 'noend': True}]}
                      for t, pid in scn['earlier_other']]
        eo_data = worlds.dump_bytes({'threads': eo_threads, 'schedule': [], 'writer': {'version': 2, 'tmap': [], 'pad': 0}})[0]
        other = tool.pk_mod.PyKdebugParser()
        common.drain(lambda: other.formatted_traces(SimReader(eo_data), table))
        common.drain(lambda: other.formatted_callstacks(SimReader(eo_data), table))
    if earlier:
        bump('probe:earlier_request_other_dump')
        bump('fault:residue')
    viols = []
    hist = []
    shapes = set()
    nontrivial = False

    def bad(tag, sig, detail):
        if len(viols) < 4:
            viols.append({'tag': tag, 'sig': sig, 'detail': detail})
    kinds_api = [('kevents', lambda p, rd: p.formatted_kevents(rd, table)), ('traces', lambda p, rd: p.formatted_traces(rd, table)),
                 ('callstacks', lambda p, rd: p.formatted_callstacks(rd, table))]
    if scn.get('big'):
        kinds_api = kinds_api[1:2]
        bump('big_capture')
    if dump['writer']['version'] == 3:
        kinds_api.append(('logs', lambda p, rd: p.formatted_logs(rd)))
    states, upd_kinds = _tables_states(dump['writer'].get('tmap', []), stream, table)
    states_b, _ = _tables_states(dump['writer'].get('tmap', []), stream, table, reapply=True)
    pos_of_ts = {r['ts']: i for i, r in enumerate(stream)}
    declared_ever = set(states[0][0])
    for st in states:
        declared_ever |= set(st[0])
    for kind, api in kinds_api:
        lines = {}
        failed = False
        for cfg in cfgs:
            p = _mk(cfg, False, scn)
            if earlier:
                common.drain(lambda: api(p, SimReader(earlier)))
            items, exc = common.drain(lambda: api(p, SimReader(data)))
            if exc is not None:
                # decoder/parse failures are not this property's subject
                hist.append([kind, 'raised', type(exc).__name__])
                failed = True
                break
            lines[tuple(cfg)] = items
        if failed:
            continue
        n = len(lines[tuple(cfgs[0])])
        if any(len(v) != n for v in lines.values()):
            bad('line-count-depends-on-columns', kind, repr({k: len(v) for k, v in lines.items()}))
            continue
        alloff = lines[tuple([False] * 6)]
        only = [lines[tuple(j == i for j in range(6))] for i in range(6)]
        for li in range(n):
            body = alloff[li]
            segs = []
            okline = True
            for i in range(6):
                o = only[i][li]
                if not o.endswith(body):
                    bad('column-alters-body', '%s:%s' % (kind, SWITCHES[i]), 'line %d: only %s on gives %r, all off gives %r' % (li, SWITCHES[i], o, body))
                    okline = False
                    break
                segs.append(o[:len(o) - len(body)])
            if not okline:
                break
            if kind == 'kevents' and body != '':
                bad('event-line-body', kind, 'event line with all columns off is %r' % body)
            for cfg in cfgs:
                want = ''.join(segs[i] for i in range(6) if cfg[i]) + body
                if lines[tuple(cfg)][li] != want:
                    bad('columns-do-not-compose', '%s' % kind, 'line %d, configuration %r: got %r, composition of single-column segments gives %r' % (
                        li, dict(zip(SWITCHES, cfg)), lines[tuple(cfg)][li], want))
                    break
            if kind in ('traces', 'callstacks') and any(segs[i] for i in (1, 2, 5)):
                bad('unimplemented-switch-changes-line', kind, 'line %d: segments %r' % (li, segs))
            if kind == 'logs' and any(segs):
                bad('unimplemented-switch-changes-line', kind, 'line %d: segments %r' % (li, segs))
            if viols:
                break
        hist.append([kind, n, lines[tuple([True] * 6)][:3]])
        # colour never changes the text
        if kind in ('traces', 'logs') and n:
            bump('probe:colour_compared')
            for cfg in (cfgs[0], cfgs[1]):
                p = _mk(cfg, True, scn)
                if earlier:
                    common.drain(lambda: api(p, SimReader(earlier)))
                items, exc = common.drain(lambda: api(p, SimReader(data)), limit=scn.get('colour_lines', 6))
                if exc is not None:
                    bad('colour-run-raised', kind, repr(exc))
                    continue
                for li, line in enumerate(items):
                    plain = ANSI.sub('', line)
                    if plain != lines[tuple(cfg)][li]:
                        bad('colour-changes-text', kind, 'line %d: coloured (ANSI stripped) %r, uncoloured %r' % (li, plain, lines[tuple(cfg)][li]))
                        break
        if kind == 'callstacks' and n:
            bump('probe:callstack_lines')
        if kind == 'logs' and n:
            bump('probe:log_lines')
        # ---- who
        proc_segs = [only[4][li][:len(only[4][li]) - len(alloff[li])] for li in range(n)]
        if kind in ('traces', 'callstacks'):
            rp = tool.pk_mod.PyKdebugParser()
            objs, exc = common.drain(lambda: (rp.traces if kind == 'traces' else rp.callstacks)(SimReader(data), table))
            if exc is not None or len(objs) != n:
                continue
            for li, obj in enumerate(objs):
                if kind == 'traces':
                    tid = obj.ktraces[0].tid
                    lo = pos_of_ts.get(obj.ktraces[0].timestamp)
                    hi = pos_of_ts.get(obj.ktraces[-1].timestamp)
                else:
                    tid = obj.tid
                    lo = pos_of_ts.get(obj.timestamp)
                    hi = lo
                    if lo is not None:     # the sample's window ends at its END record
                        hi = next((j for j in range(lo + 1, len(stream)) if stream[j]['t'] == tid and stream[j]['id'] == stream[lo]['id'] and stream[j]['q'] == 2), lo)
                if lo is None or hi is None:
                    continue
                lo, hi = min(lo, hi), max(lo, hi)
                admissible = []
                for j in range(lo, hi + 2):
                    admissible.append(_proc_text(states[j], tid))
                    admissible.append(_proc_text(states_b[j], tid))
                seg = proc_segs[li].rstrip()
                texts = {a for a in admissible if a is not None}
                unknown_ok = None in admissible
                changed = len(set(admissible)) > 1 or admissible[0] != _proc_text(states[0], tid)
                if changed:
                    nontrivial = True
                    bump('probe:window_straddles_update')
                if tid not in states[0][0] and any(a is not None for a in admissible):
                    bump('probe:thread_declared_by_newthread_record')
                is_unknown = str(tid) in seg and not seg.endswith(')')
                if seg in texts or (unknown_ok and is_unknown):
                    if unknown_ok and is_unknown:
                        bump('probe:undeclared_thread')
                        nontrivial = True
                    continue
                if unknown_ok and not texts:
                    sig = 'undeclared-thread-attributed'
                elif is_unknown:
                    sig = 'declared-thread-unknown'
                else:
                    sig = 'wrong-process'
                bad('process-column', '%s:%s' % (kind, sig),
                    'line %d (tid %d, records %d..%d): process column %r; the dump declares %r within that window%s' % (
                        li, tid, lo, hi, seg, sorted(texts), ' or nothing' if unknown_ok else ''))
                break
        elif kind == 'logs' and n:
            # a log line names the process that the dump has declared for the record's thread up to and including that record
            # (thread map, then every earlier log record that names a process and a thread, then the record itself)
            w_ = dump['writer']
            strings_ = {}
            raw_logs = []
            for b in w_.get('blocks', []):
                if b['kind'] == 'strings':
                    strings_ = {v: k for k, v in b['payload']['StringIndex'].items()}
            for b in w_.get('blocks', []):
                if b['kind'] == 'logs':
                    raw_logs += b['payload']['Events']
            if len(raw_logs) == n:
                ltp, lpn = worlds.tmap_model(w_.get('tmap', []))
                superseded = False
                for li, ev in enumerate(raw_logs):
                    name = strings_.get(ev['p'], '') if 'p' in ev else ''
                    if name and ev.get('tid'):
                        if 'pid' not in ev:
                            break        # (what a record without a pid declares is left open, see C03)
                        if ltp.get(ev['tid'], ev['pid']) != ev['pid'] or lpn.get(ev['pid'], name) != name:
                            superseded = True
                        ltp[ev['tid']] = ev['pid']
                        lpn[ev['pid']] = name
                    # a log line is: 27 columns of time, then (if the record names a process) ' <process padded to 27> ', then the text
                    line = lines[tuple([True] * 6)][li]
                    msg = strings_.get(ev.get('cm'), '')
                    if not name:
                        wantp = ''
                        want_tail = msg
                    else:
                        pid_ = ltp.get(ev['tid'], -1)
                        wantp = ('%s(%d)' % (lpn.get(pid_, ''), pid_)) if pid_ != -1 else 'Error: tid %d' % ev['tid']
                        want_tail = ' %s ' % format(wantp, '<27') + msg
                    if line[27:] != want_tail:
                        bad('process-column', 'logs:wrong-process', 'log line %d (tid %d): after the time the line reads %r; the dump declares %r at that point (%r)' % (
                            li, ev['tid'], line[27:], wantp, want_tail))
                        break
                if superseded:
                    bump('probe:log_record_supersedes_earlier_declaration')
                    nontrivial = True
        elif kind == 'kevents' and n == len(stream):
            for li, r in enumerate(stream):
                tid = r['t']
                seg = proc_segs[li].rstrip()
                map_text = _proc_text(states[0], tid)
                now_text = _proc_text(states[li], tid)
                is_unknown = str(tid) in seg and not seg.endswith(')')
                if tid not in declared_ever and map_text is None:
                    if not is_unknown:
                        bad('process-column', 'kevents:undeclared-thread-attributed', 'event %d of never-declared tid %d shows %r' % (li, tid, seg))
                        break
                    continue
                if now_text == map_text and all(_proc_text(states[j], tid) == map_text for j in range(li + 2)):
                    if (seg != map_text) if map_text is not None else (not is_unknown):
                        bad('process-column', 'kevents:wrong-process', 'event %d tid %d shows %r, thread map says %r' % (li, tid, seg, map_text))
                        break
                    continue
                # mapping superseded by earlier records of the stream
                bump('probe:kevents_superseded_thread')
                after = _proc_text(states[li + 1], tid)
                if seg in (now_text, after):
                    continue
                if (map_text is not None and seg == map_text) or (map_text is None and is_unknown):
                    bad('process-column', 'kevents:superseding-records-ignored',
                        'event %d tid %d: the stream re-declared the thread as %r before this event, the listing still shows %r' % (li, tid, now_text, seg))
                else:
                    bad('process-column', 'kevents:wrong-process', 'event %d tid %d shows %r; map %r, stream %r' % (li, tid, seg, map_text, now_text))
                break
        for k in upd_kinds:
            bump({'termpid': 'probe:mapping_superseded_by_terminate_pid', 'sampler': 'probe:mapping_superseded_by_sampler',
                  'exec': 'probe:process_renamed_by_exec', 'newthread': 'upd_newthread', 'terminate': 'probe:terminate_names_declared_thread'}[k])
        shapes.add((kind, tuple(sorted(upd_kinds)), bool(set(r['t'] for r in stream) - declared_ever)))
    if scn.get('cli') and not scn.get('wallclock') and not viols:
        # the command line offers the thread-id column and colour as switches: its lines are the library's lines
        import os
        import tempfile
        from click.testing import CliRunner
        from pykdebugparser.__main__ import cli
        bump('probe:cli_lines_compared')
        with tempfile.TemporaryDirectory() as td:
            path = os.path.join(td, 'dump')
            with open(path, 'wb') as f:
                f.write(data)
            for cmd, api, extra in (('kevents', 'formatted_kevents', []), ('traces', 'formatted_traces', ['--no-color']),
                                    ('traces', 'formatted_traces', ['--color']), ('callstacks', 'formatted_callstacks', [])):
                for tidsw in ('--show-tid', '--no-show-tid'):
                    if table != tool.codes():
                        continue
                    res = CliRunner().invoke(cli, [cmd, path, tidsw] + extra)
                    p = tool.pk_mod.PyKdebugParser()
                    p.show_tid = tidsw == '--show-tid'
                    p.color = '--no-color' not in extra
                    items, exc = common.drain(lambda: getattr(p, api)(SimReader(data)))
                    want = ''.join(str(x) + '\n' for x in items)
                    if exc is None and res.exception is None and res.output != want:
                        bad('cli-lines-differ', cmd, '%s %s %s: the command line printed %d lines, the library %d; first difference %r' % (
                            cmd, tidsw, extra, res.output.count('\n'), len(items),
                            next(((a, b) for a, b in zip(res.output.split('\n'), want.split('\n')) if a != b), None)))
    return {'violations': viols, 'digest': digest_of(scn, hist), 'stats': stats, 'nontrivial': nontrivial,
            'shape': repr(sorted(shapes)), 'extent': {'records_delivered': len(stream) * len(cfgs) * 4, 'configurations': len(cfgs)}}
