"""C07 - missing or unexpected context never aborts the trace stream (DESIGN.md 4.7).

For every decodable name (enumerated from the live tables, one focus decoder per run index) the simulator builds
in-domain programs with the full context the decoder wants, then ENUMERATES loss faults over the merged stream:
every ring-wrap depth (each dropped prefix), every single lost record, every kill point of the focus thread, plus
re-entered STARTs, nested records of kinds the tool names but does not decode, and seeded multi-fault combinations.
Oracle: feeding and rendering never raise; the same streams written as v2 files go through formatted_traces."""
import io

from .. import domains, kernel, tool, worlds
from ..runner import digest_of
from . import common

ID = 'C07'
LEVEL = 'fault_enumeration'
RUNS = {'quick': 8000, 'thorough': 160000}
CHUNK = 12
RECHECK_MOD = 101
PROBES = ['long_unfinished_window', 'window_without_any_context', 'dropped_prefix_inside_window', 'dropped_lookup', 'dropped_string_definition',
          'dropped_data_before_string', 'killed_after_start', 'reentered_start', 'undecoded_nested_record',
          'single_record_delivery', 'formatted_v2_run', 'colour_run', 'every_decoder_family']
RULE = ('one run = one focus decoder (run index mod number of decodable names, so every decoder is the focus equally '
        'often) in 1..3 thread programs with full context, then every ring-wrap depth, every single lost record and '
        'every kill point of the merged stream are executed (exhaustive within the run) plus seeded double faults; '
        'non-trivial = >= 1 enumerated fault removed a record inside or before an open window of the focus decoder; '
        'distinct = distinct history digest')
SHAPE_MEASURE = 'distinct (focus decoder, kinds of context present, fault classes that fired) tuples'
ASSUMPTIONS = ['in-domain = the enum members the live decoder names (simkd/domains.py, reviewed against the handler sources)',
               'texts are ASCII so that every record is individually valid text even when neighbouring chunks are lost',
               'an enum ValueError in the fault-free run is a generator bug (premise rejected), and one raised for an END that the losses '
               'paired with the START of a different call is not judged; any other is a violation: the rejected value was read from a '
               'record the decoder should not have read']


COMPOSITES = ('MACH_vmfault', 'DBG_DYLD_TIMING_LAUNCH_EXECUTABLE', 'PERF_Event')
NESTED_KINDS = {'MACH_vmfault': ['RealFaultAddressInternal'], 'PERF_Event': ['PERF_THD_Data', 'PERF_STK_UHdr'],
                'DBG_DYLD_TIMING_LAUNCH_EXECUTABLE': ['DYLD_uuid_map_a']}


def _undecoded_near(rng, name):
    """An id the table names but no decoder handles, from the id neighbourhood of the decoder or of the nested
    kinds it collects from its window (e.g. RealFaultAddressPurgeable inside the page-fault decoder's range)."""
    cat = worlds.catalog()
    ids = cat['ids']
    anchors = [ids[name]] + [ids[n] for n in NESTED_KINDS.get(name, []) if n in ids]
    a = rng.pick(anchors)
    near = [k for k, _v in cat['undecoded'] if k >> 16 == a >> 16]
    if not near or rng.chance(0.2):
        near = [k for k, _v in cat['undecoded'] if k >> 24 == a >> 24] or near
    if not near:
        return None
    return rng.pick(near)


_focus = None


def focus_list():
    """Every decodable name once, composites (decoders that collect nested records / strings / two paths) several
    times: they have more context to lose."""
    global _focus
    if _focus is None:
        cat = worlds.catalog()
        extra = []
        for n in NESTED_KINDS:
            extra += [n] * 8
        for n in worlds.DYLD_STRING_ARG:
            extra += [n] * 3
        for n, k in sorted(cat['path_names'].items()):
            if k >= 2 or n == 'BSC_posix_spawn':
                extra += [n] * 2
        _focus = list(cat['names']) + [n for n in extra if n in cat['ids']]
    return _focus


def generate(rng, index, tier):
    if index % 997 == 13:
        # a fork storm: as many threads as a count the source names each announce a process (or a thread) and none of the name
        # strings is in the dump
        n = worlds.dict_size(rng, 70000, k=index // 997) or 4000
        kind = rng.pick(['TRACE_DATA_EXEC', 'TRACE_DATA_NEWTHREAD', 'TRACE_DATA_EXEC'])
        crowd = [{'tid': 1000 + i, 'ops': [{'k': 'one', 'name': kind, 'q': 0, 'a': [200000 + i, 5, 0, 0]}]} for i in range(n)]
        crowd.append({'tid': 300, 'ops': worlds.gen_ops(rng, worlds.Ctx(0, 300), 3, {'bsd': 2, 'tracedom': 2}, depth=1)})
        return {'threads': crowd, 'schedule': [], 'focus': kind, 'double_seed': 1, 'colour': False, 't0': 0x123411, 'long': n}
    if index % 2003 == 11:
        # a long capture announcing thousands of global strings, some ids more than once, then operations that use them
        n = [1100, 4200, 8300][(index // 2003) % 3]
        ctx = worlds.Ctx(0, 300)
        ops = []
        for i in range(n):
            sid = 500000 + (i if i % 97 else i // 2)          # every 97th announcement repeats an earlier id
            ops.append({'k': 'gstr', 'id': sid, 'dbgid': 1, 'text': 's%d' % sid})
        ops += worlds.gen_ops(rng, ctx, 3, {'dyld': 2, 'bsd': 1}, depth=1)
        return {'threads': [{'tid': 300, 'ops': _ascii(ops)}], 'schedule': [], 'focus': 'TRACE_STRING_GLOBAL', 'double_seed': 1, 'colour': False,
                't0': 0x123411, 'long': n}
    if index % 991 == 5:
        # an operation whose END was lost, thousands of later records of that thread, then the thread starts another one
        n = worlds.LONG_SIZES[(index // 991) % len(worlds.LONG_SIZES)]
        if (index // 991) % 3 == 2:
            n = worlds.dict_size(rng, 70000 if tier == 'quick' else 270000, k=(index // 991) // 3) or n      # right at a count the source names
        ctx = worlds.Ctx(0, 300)
        first = worlds.op_long_window(rng, 'BSC_read', n)
        first['noend'] = rng.chance(0.7)
        ops = [first] + worlds.gen_ops(rng, ctx, 3, {'bsd': 2, 'path': 1, 'mach': 1}, depth=1)
        # a second thread finished a call right at the start and is idle ever since
        idle = {'tid': 311, 'ops': [{'k': 'sys', 'name': 'BSC_getpid', 's': [0, 0, 0, 0], 'e': [0, 9, 0, 0], 'in': []}]}
        return {'threads': [{'tid': 300, 'ops': _ascii(ops)}, idle], 'schedule': [1, 1], 'focus': 'BSC_read', 'double_seed': 1, 'colour': False,
                't0': 0x123411, 'long': n}
    cat = worlds.catalog()
    names = focus_list()
    name = names[index % len(names)]
    ids = cat['ids']
    nthreads = rng.pick([1, 1, 2, 3])
    threads = []
    empty_elsewhere = []
    tids = [300 + ti * 11 + rng.randrange(0, 5) for ti in range(nthreads)]
    for ti in range(nthreads):
        tid = tids[ti]
        ctx = worlds.Ctx(ti, tid, tids)
        ops = []
        if ti == 0:
            form = rng.random()
            nested = []
            if name in NESTED_KINDS and rng.chance(0.6):
                # a record the table names but nothing decodes, right inside the id range the composite decoder collects
                a = ids[rng.pick(NESTED_KINDS[name])]
                rangeids = [k for k, _v in cat['undecoded'] if abs(k - a) <= 0x10]
                if rangeids:
                    nested.append({'k': 'raw', 'id': rng.pick(rangeids), 'q': 0, 'a': rng.words()})
            if rng.chance(0.4):
                u = _undecoded_near(rng, name)
                if u is not None:
                    nested.append({'k': 'raw', 'id': u, 'q': rng.pick([0, 0, 1, 2, 3]), 'a': rng.words()})
            if rng.chance(0.3):
                s, e = domains.draw(rng, 'INTERRUPT')
                nested.append({'k': 'sys', 'name': 'INTERRUPT', 's': s, 'e': e, 'in': []})
            if name in COMPOSITES and rng.chance(0.6):
                # the composite's own world: nested records of its kinds in any order/multiplicity (equal load addresses,
                # several real-fault records, header/data mismatches), see props/c20.py
                from . import c20
                focus = [{'MACH_vmfault': c20._fault, 'DBG_DYLD_TIMING_LAUNCH_EXECUTABLE': c20._launch,
                          'PERF_Event': lambda r: c20._sample(r, tid)}[name](rng)]
            elif name in worlds.SPECIAL:
                focus = _special(rng, name, ctx)
            elif form < 0.2:
                focus = [{'k': 'one', 'name': name, 'q': rng.pick([0, 3]), 'a': domains.draw_single(rng, name)}]
            else:
                focus = worlds.op_window(rng, name, ctx, context=rng.chance(0.85), nested=nested)
                if rng.chance(0.2):   # re-entered START
                    w = focus[-1]
                    s2, _ = domains.draw(rng, name)
                    if name in worlds.DYLD_STRING_ARG:
                        s2[worlds.DYLD_STRING_ARG[name]] = w['s'][worlds.DYLD_STRING_ARG[name]]
                    focus.insert(len(focus) - 1, {'k': 'sys', 'name': name, 's': s2, 'e': [0, 0, 0, 0], 'in': [], 'noend': True})
            if focus and focus[-1].get('k') == 'sys' and not focus[-1].get('noend') and rng.chance(0.25):
                # the call is made again right away (a retry loop): losing the END of the first leaves its window - with
                # whatever was nested in it - open when the second one starts
                import copy
                focus.append(copy.deepcopy(focus[-1]))
            if worlds.catalog()['fam'].get(name) == 'dyld' and rng.chance(0.5):
                # the handle a dlopen returned is what later dlsym / dlclose calls name; its path may be a bare leaf name
                h_ = rng.pick([rng.word(), 0x7f0000001000, 1])
                sid = ctx.new_string_id()
                so, eo = domains.draw(rng, 'DBG_DYLD_TIMING_DLOPEN')
                so[1] = sid
                eo[1] = h_
                focus = [{'k': 'gstr', 'id': sid, 'dbgid': 0, 'text': rng.pick(['libfoo.dylib', 'a', '/usr/lib/libz.1', 'x.y'])},
                         {'k': 'sys', 'name': 'DBG_DYLD_TIMING_DLOPEN', 's': so, 'e': eo, 'in': []}] + focus
                for op_ in focus:
                    if op_.get('k') == 'sys' and op_.get('name') in ('DBG_DYLD_TIMING_DLCLOSE', 'DBG_DYLD_TIMING_DLSYM'):
                        op_['s'][1] = h_
                focus.append({'k': 'sys', 'name': 'DBG_DYLD_TIMING_DLCLOSE', 's': [0, h_, 0, 0], 'e': [0, 0, 0, 0], 'in': []})
            if focus and focus[-1].get('k') == 'sys' and not focus[-1].get('noend') and rng.chance(0.3):
                # another operation of the same family overlaps the focus without nesting: it starts before and ends inside
                fam_ = worlds.catalog()['fam'].get(name)
                # (not the kinds that other decoders collect from their windows: those are decoded from whichever of their records
                #  comes first, so an END record of such a kind would have to carry in-range words of its own - it is not a call)
                cands = [n_ for n_ in cat['names'] if worlds.catalog()['fam'].get(n_) == fam_ and n_ not in worlds.SPECIAL and n_ != name
                         and not n_.startswith(('RealFaultAddress', 'DYLD_uuid', 'PERF_STK', 'PERF_THD'))]
                if cands:
                    # (the overlapping operation cycles through the family with the visits of this focus: no pair depends on luck)
                    xn = sorted(cands)[(index // len(names)) % len(cands)] if rng.chance(0.7) else rng.pick(cands)
                    sx, ex = domains.draw(rng, xn)
                    w_ = focus[-1]
                    w_['in'] = list(w_.get('in', []))
                    if rng.chance(0.5):
                        w_['in'].insert(rng.randrange(len(w_['in']) + 1), {'k': 'raw', 'id': ids[xn], 'q': 2, 'a': list(ex)})
                        focus.insert(len(focus) - 1, {'k': 'sys', 'name': xn, 's': sx, 'e': ex, 'in': [], 'noend': True})
                    else:
                        # ... or the other way round: it starts inside the focus and ends after it (or never)
                        w_['in'].insert(rng.randrange(len(w_['in']) + 1), {'k': 'sys', 'name': xn, 's': sx, 'e': ex, 'in': [], 'noend': True})
                        if rng.chance(0.7):
                            focus.append({'k': 'raw', 'id': ids[xn], 'q': 2, 'a': list(ex)})
            if name in worlds.DYLD_STRING_ARG and focus and rng.chance(0.2):
                # the string the focus names is announced again with no text (released), by this thread inside a call and by
                # another thread
                sid_ = next((op_['id'] for op_ in focus if op_.get('k') == 'gstr'), None)
                if sid_ is not None:
                    s_, e_ = domains.draw(rng, 'BSC_read')
                    focus.append({'k': 'sys', 'name': 'BSC_read', 's': s_, 'e': e_, 'in': [{'k': 'gstr', 'id': sid_, 'dbgid': 0, 'text': ''}]})
                    empty_elsewhere.append(sid_)
            pre = worlds.gen_ops(rng, ctx, rng.randint(0, 2), {'bsd': 2, 'path': 2, 'tracedom': 2, 'mach': 1, 'perf': 1}, depth=1)
            post = worlds.gen_ops(rng, ctx, rng.randint(0, 2), {'bsd': 2, 'dyld': 1, 'tracedom': 2, 'mach': 1}, depth=1)
            if rng.chance(0.3) and pre:
                # focus nested inside another window of the same thread
                outer = worlds.op_window(rng, rng.pick(cat['bsd'] + cat['mach']), ctx, nested=None)
                outer[-1]['in'] = outer[-1].get('in', []) + focus
                ops = pre + outer + post
            else:
                ops = pre + focus + post
        else:
            ops = worlds.gen_ops(rng, ctx, rng.randint(1, 4), {'bsd': 2, 'path': 2, 'tracedom': 3, 'dyld': 1, 'perf': 1, 'mach': 1}, depth=1)
            for sid_ in empty_elsewhere:
                ops.insert(rng.randrange(len(ops) + 1), {'k': 'gstr', 'id': sid_, 'dbgid': 0, 'text': ''})
        threads.append({'tid': tid, 'ops': _ascii(ops)})
    per = kernel.expand_threads(threads, ids)
    table_spec = 'bundled'
    if rng.chance(0.08):
        # the caller's own code table does not name everything the bundled one does (a syscalls-only list, say)
        helpers = ['VFS_LOOKUP', 'TRACE_STRING_GLOBAL', 'PERF_THD_Data', 'PERF_STK_UHdr', 'PERF_STK_UData', 'DYLD_uuid_map_a',
                   'RealFaultAddressInternal', 'TRACE_DATA_NEWTHREAD', 'TRACE_STRING_NEWTHREAD', 'INTERRUPT']
        table_spec = {'drop': [ids[h] for h in rng.sample(helpers, rng.randint(1, 3)) if h != name and h in ids]}
    same_process = rng.chance(0.25)
    if same_process:
        # all threads belong to one process the parser already knows, and an exec / new-thread pair somewhere names that process
        prs = [op['ops'][0] for th in threads for op in th['ops'] if op.get('k') == 'seq' and len(op.get('ops', [])) == 2 and op['ops'][0].get('name') in ('TRACE_DATA_EXEC', 'TRACE_DATA_NEWTHREAD')]
        if prs and rng.chance(0.7):
            d_ = rng.pick(prs)
            d_['a'][0 if d_['name'] == 'TRACE_DATA_EXEC' else 1] = 4242
        per = kernel.expand_threads(threads, ids)
    scn = {'threads': threads, 'schedule': kernel.draw_schedule(rng, per, rng.pick(kernel.SHAPES)), 'focus': name, 'table': table_spec, 'same_process': same_process,
           'double_seed': rng.randrange(1 << 30), 'colour': index % 7 == 0,
           't0': (rng.randrange(1, 1 << 30) << 8) | 0x11, 'tsmode': worlds.draw_tsmode(rng, p=0.2)}
    return scn


def _ascii(ops):
    """C07 keeps every text ASCII (each chunk individually valid text)."""
    for op in ops:
        for key in ('path', 'text'):
            if key in op:
                op[key] = ''.join(ch if ord(ch) < 128 else 'u' for ch in op[key])
        for key in ('in', 'ops'):
            if key in op:
                _ascii(op[key])
        if 'between' in op:
            for v in op['between'].values():
                _ascii(v)
    return ops


def _special(rng, name, ctx):
    if name == 'VFS_LOOKUP':
        return [worlds.op_lookup(rng)]
    if name == 'TRACE_STRING_GLOBAL':
        return [worlds.op_gstr(rng, ctx.new_string_id())]
    if name in ('TRACE_STRING_THREADNAME', 'TRACE_STRING_THREADNAME_PREV'):
        return [{'k': 'tname', 'text': rng.text(rng.pick([1, 20, 32, 33, 64]), multibyte=False), 'prev': name.endswith('PREV')}]
    if name in ('TRACE_DATA_NEWTHREAD', 'TRACE_STRING_NEWTHREAD'):
        return [worlds.op_newthread(rng, 900000 + ctx.new_pid(), ctx.new_pid(), rng.ident())]
    if name in ('TRACE_DATA_EXEC', 'TRACE_STRING_EXEC'):
        return [worlds.op_exec(rng, ctx.new_pid(), rng.ident())]
    if name == 'TRACE_STRING_PROC_EXIT':
        return [kernel.text_one(name, rng.ident())]
    if name == 'TRACE_DATA_THREAD_TERMINATE':
        return [{'k': 'one', 'name': name, 'q': 0, 'a': [rng.pick([ctx.tid, 5, 800001]), 0, 0, 0]}]
    return [{'k': 'one', 'name': name, 'q': 0, 'a': [ctx.new_pid(), rng.word(), 0, 0]}]


PREMISE = ('is not a valid',)


def _feed_all(table, stream, init_tp=None):
    """Returns None or (exception, record index)."""
    parser = tool.tp_mod.TracesParser(table, dict(init_tp or {}), {})
    i = -1
    try:
        for i, ev in enumerate(worlds.kevents_of(stream)):
            t = parser.feed(ev)
            if t is not None:
                str(t)
    except Exception as e:
        return e, i
    return None


def _mismatched_pair(variant, i):
    """Was record i an END that the losses paired with the START of a different call of the same code?"""
    if not 0 <= i < len(variant) or variant[i]['q'] != 2:
        return False
    rec = variant[i]
    for j in range(i - 1, -1, -1):
        o = variant[j]
        if o['id'] == rec['id'] and o['t'] == rec['t'] and o['q'] in (1, 2):
            return o['q'] == 1 and o['o'].rsplit('/', 1)[0] != rec['o'].rsplit('/', 1)[0]
    return False


def _classify(e):
    # (a UnicodeDecodeError is NOT a premise rejection here: every text-bearing record this check generates is ASCII, so a
    #  decode error can only come from the tool decoding bytes that are not text, e.g. another record's arguments)
    if isinstance(e, ValueError) and not isinstance(e, UnicodeError) and any(p in str(e) for p in PREMISE):
        return 'premise'
    return 'violation'


def execute(scn):
    stats = {}

    def bump(k, v=1):
        stats[k] = stats.get(k, 0) + v
    table, stream = worlds.build_stream(scn)
    focus = scn.get('focus')
    fam = worlds.catalog()['fam'].get(focus, '?')
    bump('family:' + fam)
    bump('probe:every_decoder_family')
    viols = []
    hist = []
    seen = set()
    shapes = set()
    premise_in_fault_free = [False]

    init_tp = {th['tid']: 4242 for th in scn['threads']} if scn.get('same_process') else None

    def judge(variant, label, detail):
        r = _feed_all(table, variant, init_tp)
        if r is None:
            return True
        e, i = r
        cls = _classify(e)
        if cls == 'premise' and label != 'fault-free' and not premise_in_fault_free[0] and not _mismatched_pair(variant, i):
            # every record is in the decoder's range on its own (the fault-free run shows it) and the decoder was not handed the
            # START of one call with the END of another: the value it rejects was read from a record it should not have read
            cls = 'violation'
        if cls == 'premise':
            if label == 'fault-free':
                premise_in_fault_free[0] = True
            bump('premise_rejected')
            hist.append([label, 'premise', repr(e)[:80]])
            return True
        sig = common.exc_sig(e)
        if sig not in seen:
            seen.add(sig)
            name = table.get(variant[i]['id']) if 0 <= i < len(variant) else None
            viols.append({'tag': 'raised', 'sig': sig,
                          'detail': '%s; %s while feeding record %d (%s) of %d: %r' % (label, detail, i, name, len(variant), e)})
        hist.append([label, 'raised', sig])
        return False
    n = len(stream)
    judge(stream, 'fault-free', 'no fault')
    if scn.get('long'):
        # the enumeration below is quadratic in the stream length: a long stream gets the fault-free run and a few cuts only
        bump('probe:long_unfinished_window')
        for d in (1, n // 2, n - 3):
            bump('fault:ring_wrap')
            judge(stream[d:], 'wrap %d' % d, 'first %d records lost' % d)
        return {'violations': viols[:6], 'digest': digest_of(scn, hist), 'stats': stats, 'nontrivial': True,
                'shape': 'long', 'extent': {'records_delivered': 4 * n, 'fault_variants': 4}}
    focus_id = worlds.catalog()['ids'].get(focus)
    nontrivial = False
    # open-window bookkeeping for probes
    fpos = [i for i, r in enumerate(stream) if r['id'] == focus_id]
    for d in range(1, n + 1):
        bump('fault:ring_wrap')
        if fpos and fpos[0] < d <= fpos[-1]:
            bump('probe:dropped_prefix_inside_window')
            nontrivial = True
        judge(stream[d:], 'wrap %d' % d, 'first %d records lost (ring buffer wrapped)' % d)
    for i in range(n):
        bump('fault:lost_event')
        nm = table.get(stream[i]['id'])
        if nm == 'VFS_LOOKUP':
            bump('probe:dropped_lookup')
        elif nm == 'TRACE_STRING_GLOBAL':
            bump('probe:dropped_string_definition')
        elif nm in ('TRACE_DATA_NEWTHREAD', 'TRACE_DATA_EXEC'):
            bump('probe:dropped_data_before_string')
        if fpos and fpos[0] <= i <= fpos[-1]:
            nontrivial = True
        judge(stream[:i] + stream[i + 1:], 'drop %d' % i, 'record %d (%s) lost' % (i, nm))
    th0 = [i for i, r in enumerate(stream) if r['th'] == 0]
    for j, cutpos in enumerate(th0):
        bump('fault:thread_killed')
        if stream[cutpos]['q'] == 1:
            bump('probe:killed_after_start')
        variant = [r for i, r in enumerate(stream) if r['th'] != 0 or i <= cutpos]
        judge(variant, 'kill %d' % j, 'thread 0 killed after its record %d' % j)
    # drop every record of one kind (all lookups / all strings / all data records): "context announced before the dump"
    for kind in ('VFS_LOOKUP', 'TRACE_STRING_GLOBAL', 'TRACE_DATA_NEWTHREAD', 'TRACE_DATA_EXEC', 'PERF_STK_UHdr',
                 'PERF_THD_Data', 'PERF_STK_UData'):
        kid = worlds.catalog()['ids'].get(kind)
        variant = [r for r in stream if r['id'] != kid]
        if len(variant) != n:
            bump('fault:lost_burst')
            bump('probe:window_without_any_context')
            judge(variant, 'no ' + kind, 'every %s record lost' % kind)
    # seeded double faults
    from ..rng import Rng
    r2 = Rng(scn.get('double_seed', 0))
    for _ in range(min(12, n)):
        a, b = sorted([r2.randrange(n), r2.randrange(n)])
        variant = [r for i, r in enumerate(stream) if i not in (a, b)]
        bump('fault:double_loss')
        judge(variant, 'drop %d+%d' % (a, b), 'records %d and %d lost' % (a, b))
    for r in stream:
        if r['q'] in (0, 3) and r['id'] == focus_id:
            bump('probe:single_record_delivery')
            break
    if any(table.get(r['id']) is not None and table.get(r['id']) not in worlds.catalog()['fam'] for r in stream):
        bump('probe:undecoded_nested_record')
    starts = [r for r in stream if r['id'] == focus_id and r['q'] == 1]
    if len(starts) >= 2:
        bump('probe:reentered_start')
    # the same streams as v2 files through the real formatted_traces
    for label, variant in (('full', stream), ('wrap', stream[n // 3:]), ('drop', stream[:n // 2] + stream[n // 2 + 1:])):
        if not variant:
            continue
        data, _ = worlds.build_file({'version': 2, 'tmap': [[r['t'], 7, 'p', ''] for r in variant[:1]], 'pad': 0},
                                    [kernel.to_bytes(x) for x in variant])
        for colour in ([False, True] if scn.get('colour') else [False]):
            bump('probe:formatted_v2_run')
            if colour:
                bump('probe:colour_run')
            p = common.new_parser(color=colour, show_tid=True)
            items, exc = common.drain(lambda: p.formatted_traces(io.BytesIO(data), table))
            if exc is not None and _classify(exc) != 'premise':
                sig = 'formatted:' + common.exc_sig(exc)
                if sig not in seen and common.exc_sig(exc) not in seen:
                    seen.add(sig)
                    viols.append({'tag': 'raised', 'sig': sig, 'detail': 'formatted_traces(colour=%s) on the %s stream: %r' % (colour, label, exc)})
            hist.append(['fmt', label, colour, len(items), type(exc).__name__ if exc else None])
    shapes.add((focus, tuple(sorted(seen))))
    return {'violations': viols[:6], 'digest': digest_of(scn, hist), 'stats': stats, 'nontrivial': nontrivial,
            'shape': repr(sorted(shapes)), 'extent': {'records_delivered': n * (3 * n + 20), 'fault_variants': 3 * n + 20}}
