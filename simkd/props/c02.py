"""C02 - a version-2 dump yields exactly its records, in order, and its thread map; no residue (DESIGN.md 4.2).

Parse-history simulation: one long-lived pair of table dicts (inside a PyKdebugParser, or handed to KdBufParser
objects) lives through a seeded history of parses - complete, abandoned by the consumer after k events, crashed on
a truncated file, of a v3 file with logs - and of residue writes such as a trace run leaves; the last operation is
always a complete parse of a v2 file, which is the one judged against the writer's knowledge and an independent
record codec."""
import os

from .. import kernel, records, tool, worlds
from ..disk import SimReader
from ..runner import digest_of
from . import common

ID = 'C02'
LEVEL = 'exploration'
RUNS = {'quick': 20000, 'thorough': 400000}
CHUNK = 60
PROBES = ['large_capture', 'record_with_zero_timestamp_and_debugid', 'pid_with_top_bit_set', 'abandoned_parse_before', 'crashed_parse_before', 'v3_with_logs_before', 'residue_before', 'duplicate_tid_in_map',
          'duplicate_pid_in_map', 'empty_map', 'pad_nonzero', 'pad_zero', 'arbitrary_record_bytes', 'name_19_bytes',
          'bytes_after_nul', 'same_kdbuf_object_reused', 'zero_records', 'first_record_leading_zero',
          'other_request_pending_when_created', 'listings_read_in_turns', 'read_through_gzip_stream', 'same_stream_rewound_and_read_again', 'stream_positioned_behind_a_prefix', 'parser_built_with_one_table', 'read_from_a_real_buffered_file']
RULE = ('one run = a history of 1..7 operations on one long-lived table pair (full / abandoned / crashed / v3 parses, residue '
        'writes) followed by the judged complete parse of a seeded v2 file (thread map 0..8 entries with duplicate keys, pad '
        '0..4 KiB, 0..40 records from SimKernel or arbitrary bytes); non-trivial = the history left >= 1 table entry that the '
        'judged file does not declare, or the map has a duplicate key; distinct = distinct history digest')
SHAPE_MEASURE = 'distinct (tuple of history op kinds, which left residue, api used) shapes'
ASSUMPTIONS = ['names are <= 19 bytes + NUL as the kernel strlcpy()s them; a first record of 64 zero bytes is never generated '
               '(indistinguishable from padding for any parser)']
API = ('pk', 'kd_new', 'kd_same', 'kd_noargs', 'pk_rebind', 'kd_only_names', 'kd_only_threads')


def _gen_file(rng, version=2, arbitrary=None):
    threads = worlds.gen_threads(rng, rng.randint(1, 2), 0 if rng.chance(0.15) else 1, 3,
                                 {'bsd': 3, 'path': 2, 'tracedom': 2, 'mach': 1, 'unknown': 1})
    f = {'threads': threads, 'schedule': [], 't0': (rng.randrange(1, 1 << 40) << 8) | rng.randrange(1, 256)}
    w = worlds.gen_writer(rng, version, threads, 6)
    if version == 2:
        w['pad'] = rng.pick([0, 0, 0, 1, 2, 7, 8, 63, 64, 65, 128, 1000, rng.randint(0, 300), 4096 - 0x120,
                             rng.pick([16384 - 0x120, 16384, 16385, 16448, 20000, 32768 - 0x120, 65536 + 3, 70000]) if rng.chance(0.08) else 0])
        if rng.chance(0.15):
            w['tmap'] = []
    f['writer'] = w
    if arbitrary if arbitrary is not None else rng.chance(0.3):
        n = rng.randint(0, 12)
        recs = []
        for i in range(n):
            b = bytearray(rng.randbytes(64))
            if rng.chance(0.3):
                for j in range(rng.randrange(64)):
                    b[rng.randrange(64)] = 0
            r = rng.random()
            if r < 0.08:
                b[0:8] = bytes(8)              # timestamp 0
                b[48:52] = bytes(4)            # debugid 0 (a slot the kernel never wrote looks like this; it is still a record)
            elif r < 0.12:
                b = bytearray(64)              # an all-zero record (never the first one, see ASSUMPTIONS)
            elif r < 0.16:
                b = bytearray(b'\xff' * 64)
            elif r < 0.2:
                b[48:52] = bytes(4)
            elif r < 0.26 and i > 0:
                b = bytearray(worlds.magic_record(rng))       # a record that happens to begin like a file magic / section tag
            if i == 0 and b[0] == 0:
                b[0] = rng.randrange(1, 256)
            recs.append(bytes(b).hex())
        f['raw_records'] = recs
    return f


def generate(rng, index, tier):
    hist = []
    for _ in range(rng.randint(0, 6)):
        r = rng.random()
        if r < 0.25:
            hist.append({'op': 'full', 'file': _gen_file(rng)})
        elif r < 0.45:
            hist.append({'op': 'abandon', 'file': _gen_file(rng, arbitrary=False), 'after': rng.randint(0, 4)})
        elif r < 0.6:
            hist.append({'op': 'crash', 'file': _gen_file(rng, arbitrary=False), 'cutfrac': rng.random()})
        elif r < 0.75:
            hist.append({'op': 'v3', 'file': _gen_file(rng, version=3, arbitrary=False)})
        else:
            hist.append({'op': 'residue', 'tp': [[rng.randrange(1, 1 << 20), rng.randrange(1, 9999)] for _ in range(rng.randint(1, 3))],
                         'pn': [[rng.randrange(1, 9999), rng.ident()] for _ in range(rng.randint(0, 3))]})
    judged = _gen_file(rng)
    if index % 211 == 9:
        # a big capture: hundreds or thousands of thread-map entries (with repeated tids/pids) and of records
        n = [260, 1030, 4100, 70000, worlds.dict_size(rng, 70000, k=(index // 211) // 5) or 300][(index // 211) % 5]
        judged['writer']['tmap'] = [[rng.randrange(1, 3000), rng.randrange(1, 500), rng.ident(1, 10), ''] for _ in range(n)]
        judged['raw_records'] = [(bytes([1 + i % 255]) + rng.randbytes(63)).hex() for i in range([300, 1100, 5000][(index // 211) % 3])]
        judged.pop('zero_lead', None)
        big_stream = rng.pick([None, 'file', 'file', 'gzip'])      # (big dumps also through a real buffered file: more than one buffer)
    if rng.chance(0.04):
        # finding F11: a first record that begins with zero bytes (statement: "including records that begin with zero bytes")
        judged['zero_lead'] = rng.randint(1, 8)
    scn = {'history': hist, 'judged': judged, 'api': rng.pick(API)}
    if index % 211 == 9 and big_stream:
        scn['stream'] = big_stream
    elif rng.chance(0.08):
        scn['stream'] = rng.pick(['gzip', 'twice-raw', 'twice-bytes', 'offset', 'offset', 'file', 'file'])
    if rng.chance(0.12):
        # requests are lazy: another request on the same tables is created before or after the judged one is created and
        # is consumed completely before the judged one is pulled for the first time (the schedule of first pulls is seeded)
        scn['pending'] = [{'file': _gen_file(rng, arbitrary=False), 'created': rng.pick(['before', 'after']),
                           'pulled': rng.pick(['all', 'all', 'some', 'none', 'interleaved', 'interleaved'])} for _ in range(rng.randint(1, 2))]
        scn['pull_schedule'] = [rng.randrange(0, 3) for _ in range(rng.randint(2, 40))]
    return scn


def _file_bytes(f):
    if 'raw_records' in f:
        rb = [bytes.fromhex(x) for x in f['raw_records']]
    else:
        _table, stream = worlds.build_stream(f)
        rb = [kernel.to_bytes(r) for r in stream]
    if f.get('zero_lead') and rb:
        k = min(63, f['zero_lead'])
        rb[0] = b'\x00' * k + rb[0][k:]
        if not any(rb[0]):
            rb[0] = rb[0][:63] + b'\x01'      # a first record of 64 zero bytes is indistinguishable from padding: never generated
    data, layout = worlds.build_file(f['writer'], rb)
    return data, rb


def execute(scn):
    stats = {}

    def bump(k, v=1):
        stats[k] = stats.get(k, 0) + v
    api = scn.get('api', 'pk')
    pk = tool.pk_mod.PyKdebugParser()
    tp, pn = pk.threads_pids, pk.pids_names
    kd_same = tool.kdbuf_mod.KdBufParser(tp, pn)
    state = {'kd': None}
    if api == 'kd_same':
        bump('probe:same_kdbuf_object_reused')

    def start(data):
        rd = SimReader(data) if isinstance(data, (bytes, bytearray)) else data       # bytes, or a stream the caller opened
        if api == 'pk':
            return pk.kevents(rd)
        if api == 'kd_new':
            return tool.kdbuf_mod.KdBufParser(tp, pn).parse(rd)
        if api == 'kd_noargs':
            state['kd'] = tool.kdbuf_mod.KdBufParser()      # every object owns its tables
            return state['kd'].parse(rd)
        if api == 'pk_rebind':
            return pk.kevents(rd)
        if api == 'kd_only_names':
            state['kd'] = tool.kdbuf_mod.KdBufParser(pids_names=pn)          # the caller hands over one of the two tables only
            return state['kd'].parse(rd)
        if api == 'kd_only_threads':
            state['kd'] = tool.kdbuf_mod.KdBufParser(threads_pids=tp)
            return state['kd'].parse(rd)
        return kd_same.parse(rd)
    hist = []
    shape = []
    left_residue = False
    abandoned = []
    for h in scn.get('history', []):
        op = h['op']
        before = (dict(tp), dict(pn))
        try:
            if op == 'residue':
                for t, p in h['tp']:
                    tp[t] = p
                for p, n in h['pn']:
                    pn[p] = n
                bump('probe:residue_before')
                bump('fault:residue')
            else:
                data, rb = _file_bytes(h['file'])
                if op == 'full':
                    common.drain(lambda: start(data))
                elif op == 'abandon':
                    g = start(data)
                    it = iter(g)
                    for _ in range(h.get('after', 0)):
                        if next(it, None) is None:
                            break
                    abandoned.append(it)      # stays half-consumed for the rest of the history
                    bump('probe:abandoned_parse_before')
                    bump('fault:abandon')
                elif op == 'crash':
                    cut = int(len(data) * h.get('cutfrac', 0.5))
                    common.drain(lambda: start(data[:cut]))
                    bump('probe:crashed_parse_before')
                    bump('fault:truncate')
                elif op == 'v3':
                    items, exc = common.drain(lambda: start(data))
                    if any(b['kind'] == 'logs' for b in h['file']['writer'].get('blocks', [])):
                        bump('probe:v3_with_logs_before')
        except Exception as e:   # history ops are not judged
            hist.append([op, 'exc', type(e).__name__])
        shape.append(op + ('+' if (dict(tp), dict(pn)) != before else ''))
        hist.append([op, len(tp), len(pn)])
    if api == 'pk_rebind':
        # the caller gives the long-lived object a fresh pair of tables for the next dump (keeping the old pair for itself)
        old_tp, old_pn = dict(pk.threads_pids), dict(pk.pids_names)
        kept_tp, kept_pn = pk.threads_pids, pk.pids_names
        pk.threads_pids, pk.pids_names = {}, {}
        tp, pn = pk.threads_pids, pk.pids_names
        bump('tables_rebound')
    f = scn['judged']
    data, rb = _file_bytes(f)
    w = f['writer']
    want_tp, want_pn = worlds.tmap_model(w.get('tmap', []))
    stale = (set(tp) - set(want_tp)) or (set(pn) - set(want_pn)) or any(want_tp.get(k) != v for k, v in tp.items())
    if stale:
        left_residue = True
    tids = [t[0] for t in w.get('tmap', [])]
    pids = [t[1] for t in w.get('tmap', [])]
    dup = len(set(tids)) != len(tids) or len(set(pids)) != len(pids)
    if len(set(tids)) != len(tids):
        bump('probe:duplicate_tid_in_map')
    if len(set(pids)) != len(pids):
        bump('probe:duplicate_pid_in_map')
    if not tids:
        bump('probe:empty_map')
    if len(tids) >= 256:
        bump('probe:large_capture')
    bump('probe:pad_nonzero' if w.get('pad') else 'probe:pad_zero')
    if 'raw_records' in f:
        bump('probe:arbitrary_record_bytes')
    if any(len(t[2].encode()) == 19 for t in w.get('tmap', [])):
        bump('probe:name_19_bytes')
    if any(t[3] for t in w.get('tmap', [])):
        bump('probe:bytes_after_nul')
    if not rb:
        bump('probe:zero_records')
    if any(x[0:8] == bytes(8) and x[48:52] == bytes(4) for x in rb[1:]):
        bump('probe:record_with_zero_timestamp_and_debugid')
    if any(t[1] >= 1 << 31 for t in w.get('tmap', [])):
        bump('probe:pid_with_top_bit_set')
    zero_lead = bool(rb) and rb[0][:1] == b'\x00'
    if zero_lead:
        bump('probe:first_record_leading_zero')
    viols = []
    viols_pre = None
    cleanup = []
    if scn.get('stream') == 'gzip' and not scn.get('pending'):
        # the caller reads a compressed dump through gzip.open(): a seekable stream whose fileno() is the COMPRESSED file's
        import gzip
        import tempfile
        td = tempfile.mkdtemp(prefix='c02gz')
        pth = os.path.join(td, 'dump.gz')
        with gzip.open(pth, 'wb') as f_:
            f_.write(data)
        gz = gzip.open(pth, 'rb')
        cleanup.append((gz, td))
        bump('probe:read_through_gzip_stream')
        data_stream = gz
    elif scn.get('stream') in ('twice-raw', 'twice-bytes') and not scn.get('pending'):
        # the same stream object was already read to its end by an earlier request on these tables and is rewound for this one
        import gc
        from ..disk import SimRawReader
        data_stream = SimRawReader(data) if scn['stream'] == 'twice-raw' else SimReader(data)
        common.drain(lambda: start(data_stream))
        gc.collect()
        data_stream.seek(0)
        bump('probe:same_stream_rewound_and_read_again')
    elif scn.get('stream') == 'file' and not scn.get('pending'):
        # the dump is a real file opened the ordinary way (a buffered reader with peek(), readinto(), a file descriptor)
        import tempfile
        td = tempfile.mkdtemp(prefix='c02f')
        pth = os.path.join(td, 'dump')
        with open(pth, 'wb') as f_:
            f_.write(data)
        fh = open(pth, 'rb')
        cleanup.append((fh, td))
        bump('probe:read_from_a_real_buffered_file')
        data_stream = fh
    elif scn.get('stream') == 'offset' and not scn.get('pending'):
        # the dump sits behind something else in the stream and the stream is handed over positioned at the dump's first byte
        prefix = b'KTRA' + bytes(range(1, 29))
        data_stream = SimReader(prefix + data)
        data_stream.seek(len(prefix))
        bump('probe:stream_positioned_behind_a_prefix')
    else:
        data_stream = None
    pending = scn.get('pending', []) if api in ('pk', 'kd_new', 'kd_same') else []
    waiting = []

    def create_pending(when):
        for pd in pending:
            if pd.get('created') == when:
                pdata, _prb = _file_bytes(pd['file'])
                try:
                    waiting.append((pd, iter(start(pdata))))
                except Exception:
                    pass
    if pending:
        bump('probe:other_request_pending_when_created')
        bump('fault:pending_request')
        create_pending('before')
        try:
            judged_gen, exc0 = start(data), None
        except Exception as e:
            judged_gen, exc0 = None, e
        create_pending('after')
        shape.extend('pending-%s-%s' % (pd.get('created'), pd.get('pulled')) for pd, _ in waiting)
        for pd, it in waiting:
            # the other requests run (to their end, for a few events, or not at all) before the judged one is pulled
            if pd.get('pulled') == 'all':
                common.drain(it)
            elif pd.get('pulled') in ('some', 'interleaved'):
                common.drain(it, limit=2)
        stepping = [it for pd, it in waiting if pd.get('pulled') == 'interleaved']
        if exc0 is not None:
            items, exc = [], exc0
        elif stepping:
            # the listings are then read in turns, one event at a time, in a seeded order (every listing reads its own stream)
            bump('probe:listings_read_in_turns')
            items, exc = [], None
            sched = list(scn.get('pull_schedule', []))
            jit = None
            try:
                jit = iter(judged_gen)
                while True:
                    c = sched.pop(0) if sched else 0
                    if c == 0:
                        x = next(jit, None)
                        if x is None:
                            break
                        items.append(x)
                    else:
                        next(stepping[(c - 1) % len(stepping)], None)
            except common.SimBudgetExceeded:
                raise
            except Exception as e:
                exc = e
        else:
            items, exc = common.drain(judged_gen)
    else:
        items, exc = common.drain(lambda: start(data if data_stream is None else data_stream))
    for st_, td_ in cleanup:
        try:
            st_.close()
        except Exception:
            pass
        import shutil
        shutil.rmtree(td_, ignore_errors=True)
    if api == 'kd_noargs' and state['kd'] is not None:
        judged_kd = state['kd']
        tp, pn = judged_kd.threads_pids, judged_kd.pids_names
        # afterwards ANOTHER argument-less object parses a different dump: this object's tables are its own
        other = tool.kdbuf_mod.KdBufParser()
        odata, _orb = _file_bytes(scn['history'][0]['file']) if scn.get('history') and 'file' in scn['history'][0] else (None, None)
        if odata is not None:
            common.drain(lambda: other.parse(SimReader(odata)))
            bump('other_argless_object_parsed_after')
    if api in ('kd_only_names', 'kd_only_threads') and state['kd'] is not None:
        # the table the caller handed over is the caller's own object and is the one filled; the other one is the parser's
        bump('probe:parser_built_with_one_table')
        if api == 'kd_only_names':
            tp = state['kd'].threads_pids
            if state['kd'].pids_names is not pn:
                pn = {'<the caller\'s table was replaced by a private one>': 1}
        else:
            pn = state['kd'].pids_names
            if state['kd'].threads_pids is not tp:
                tp = {'<the caller\'s table was replaced by a private one>': 1}
    if api == 'pk_rebind' and (kept_tp != old_tp or kept_pn != old_pn) and exc is None:
        viols_pre = {'tag': 'old-tables-overwritten', 'sig': 'rebind', 'detail': 'the pair of tables the caller kept from the previous request was modified by the next one'}
    else:
        viols_pre = None
    want = [records.ref_decode(b) for b in rb]
    got = [common.ev_tuple(e) for e in items if not common.is_log(e)]
    suffix = '' if not zero_lead else '-first-record-begins-with-zero-bytes'
    if exc is not None:
        viols.append({'tag': 'judged-parse-raised' + suffix, 'sig': type(exc).__name__ if not zero_lead else 'pad-skipper',
                      'detail': 'parse of a complete v2 file (%d map entries, pad %d, %d records) raised %r after %d events'
                                % (len(tids), w.get('pad', 0), len(rb), exc, len(got))})
    elif got != want:
        j = next((j for j in range(max(len(got), len(want))) if j >= len(got) or j >= len(want) or got[j] != want[j]), 0)
        viols.append({'tag': 'events-differ' + suffix, 'sig': ('count' if len(got) != len(want) else 'content') if not zero_lead else 'pad-skipper',
                      'detail': '%d events for %d records; first difference at %d: got %r want %r' % (
                          len(got), len(want), j, got[j] if j < len(got) else None, want[j] if j < len(want) else None)})
    if exc is None and not zero_lead:
        if tp != want_tp:
            extra = {k: v for k, v in tp.items() if want_tp.get(k) != v}
            missing = {k: v for k, v in want_tp.items() if k not in tp}
            viols.append({'tag': 'threads-table', 'sig': 'stale' if any(k not in want_tp for k in extra) else ('value' if extra else 'missing'),
                          'detail': 'after history %r: unexpected %r missing %r' % (shape, extra, missing)})
        if pn != want_pn:
            extra = {k: v for k, v in pn.items() if want_pn.get(k) != v}
            missing = {k: v for k, v in want_pn.items() if k not in pn}
            viols.append({'tag': 'names-table', 'sig': 'stale' if any(k not in want_pn for k in extra) else ('value' if extra else 'missing'),
                          'detail': 'after history %r: unexpected %r missing %r' % (shape, extra, missing)})
    if viols_pre:
        viols.append(viols_pre)
    hist.append(['judged', len(got), type(exc).__name__ if exc else None, sorted(tp.items()), sorted(pn.items())])
    return {'violations': viols, 'digest': digest_of(scn, hist), 'stats': stats,
            'nontrivial': bool(left_residue or dup), 'shape': repr((tuple(shape), api)),
            'extent': {'records_delivered': len(rb), 'history_ops': len(shape) + 1}}
