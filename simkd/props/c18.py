"""C18 - output is a function of the dump, not of the host operating system (DESIGN.md 4.18).

Environment-seam fault enumeration: SimHost imports one independent copy of the tool per simulated host (the
interpreter's own tables, Darwin's numbering, two seeded scramblings of names over numbers, a sparse host) by
substituting the errno / signal / socket modules the BSD decoders import; the same dump is decoded on every host.
Primary oracle (metamorphic): for events inside the domain of both hosts of a pair the rendered text is identical.
Secondary (spot): numbers whose Darwin names are beyond doubt show the Darwin name."""
from .. import domains, host as hostmod, kernel, tool, worlds
from ..runner import digest_of
from . import common

ID = 'C18'
LEVEL = 'fault_enumeration'
RUNS = {'quick': 361 * 6, 'thorough': 361 * 60}
CHUNK = 20
RECHECK_MOD = 59
PROBES = ['rendered_in_an_interpreter_with_another_hash_seed', 'negative_return_words', 'path_outside_ascii', 'small_word_windows', 'host_environment_swapped', 'errno_sweep', 'signal_sweep', 'family_sweep', 'kind_sweep', 'sockopt_levels', 'pipe_variant', 'large_error_word',
          'out_of_domain_on_some_host', 'spot_checked', 'formatted_traces_path']
RULE = ('one run = one BSD decoder (run index mod number of BSD decoders) x 24 error words drawn from 0..260 and a few huge values '
        '(all of 0..127 for every 12th run), plus full sweeps of signals 0..40, address families 0..45, socket kinds 0..8 and option '
        'levels for the decoders that take them; each decoded on 5 simulated hosts; non-trivial = >= 1 event whose number at least two '
        'hosts name differently in their own tables; distinct = history digest')
SHAPE_MEASURE = 'distinct (decoder, kinds of host-named fields present) pairs'
ASSUMPTIONS = ['host platforms are modelled by substituting the errno/signal/socket modules the BSD decoders import',
               'an event whose number a host cannot convert (enum ValueError) is outside that host\'s domain and is not compared on it',
               'the Darwin spot list is restricted to numbers that are certain']
HOST_FIELD = {'BSC_sigaction': 'signal', 'BSC_socket': 'socket', 'BSC_socketpair': 'socket', 'BSC_socket_delegate': 'socket',
              'BSC_getsockopt': 'sockopt', 'BSC_setsockopt': 'sockopt'}


def generate(rng, index, tier):
    cat = worlds.catalog()
    name = cat['bsd'][index % len(cat['bsd'])]
    errs = sorted(set([0] + [rng.randrange(1, 261) for _ in range(20)] + [rng.pick([35, 11, 45, 60, 102, 106, 107, 131, 255]),
                                                                              rng.pick([1 << 31, 1 << 32, (1 << 64) - 1, 4096])]))
    errs = sorted(set(errs) | {rng.pick([0x100, 0x200, 0x300, 0x400, 0x8000, 0x10000]) | rng.randrange(0, 107) for _ in range(4)})
    errs = sorted(set(errs) | {11, 35, 45, 102})       # the numbers whose names are aliases of one another on some hosts but not on Darwin
    if index % 12 == 0:
        errs = sorted(set(errs) | set(range(0, 128)))
    return {'decoder': name, 'errs': errs, 'arg_seed': rng.randrange(1 << 30), 'formatted': index % 9 == 0, 'small': 24, 'env': index % 7 == 1}


def _events(scn):
    """The fixed dump: a list of (label, kind, number, window records)."""
    from ..rng import Rng
    r = Rng(scn['arg_seed'])
    name = scn['decoder']
    ids = worlds.catalog()['ids']
    cat = worlds.catalog()
    out = []

    def window(s, e, label, kind, num):
        op = {'k': 'sys', 'name': name, 's': s, 'e': e, 'in': [worlds.op_lookup(r, 5)] if name in cat['path_names'] else []}
        out.append((label, kind, num, kernel.merge([kernel.expand(op, 900, ids, 'h')], [])))
    base_s, base_e = domains.draw(r, name)
    hf = HOST_FIELD.get(name)
    if hf == 'signal':
        base_s[0] = 2
    elif hf == 'socket':
        base_s[0], base_s[1] = 2, 1
    elif hf == 'sockopt':
        base_s[1], base_s[2] = 6, 1
    for err in scn['errs']:
        e = list(base_e)
        e[0] = err
        window(list(base_s), e, 'errno=%d' % err, 'errno', err)
    # windows whose START words are all small numbers (what signal numbers, families, namespaces, option levels look like):
    # whatever a decoder does with them, the text may not depend on the host
    for j in range(scn.get('small', 0)):
        s = [r.randrange(0, 41) for _ in range(4)]
        for where, idx, kind_, spec in domains.DOMAINS.get(name, ()):
            if where == 'S':
                s[idx] = base_s[idx]
        window(s, [r.pick([0, 0, 2, 13]), 0, 0, 0], 'small=%r' % (s,), 'small', j)
    # failures handed back as a negative return value (error slot clear), with every high flag bit of every free START word
    free = [i for i in range(4) if not any(where == 'S' and idx == i for where, idx, _k, _s in domains.DOMAINS.get(name, ()))]
    for i in free:
        for bit in range(16, 32):
            s = list(base_s)
            s[i] |= 1 << bit
            k = r.randrange(1, 107)
            window(s, [0, (-k) & r.pick([0xffffffff, (1 << 64) - 1]), 0, 0], 'start[%d]|=1<<%d return=-%d' % (i, bit, k), 'negret', k)
    for k in (r.randrange(1, 107), r.randrange(1, 107)):
        window(list(base_s), [0, (-k) & 0xffffffff, 0, 0], 'return=-%d' % k, 'negret', k)
    if hf == 'signal':
        for sig in list(range(0, 41)) + [63, 64, 65, 66, 127, 128]:
            s = list(base_s)
            s[0] = sig
            window(s, [0, 0, 0, 0], 'signal=%d' % sig, 'signal', sig)
    elif hf == 'socket':
        for fam in range(0, 46):
            s = list(base_s)
            s[0] = fam
            window(s, [0, 3, 0, 0], 'family=%d' % fam, 'family', fam)
        for kind in list(range(0, 9)) + [0x800, 0x801, 0x802, 0x80000, 0x80001, 0x80801, 0x5, 0x10000001, 0x4 | 1]:
            s = list(base_s)
            s[1] = kind
            window(s, [0, 3, 0, 0], 'kind=%d' % kind, 'kind', kind)
        # raw sockets of both IP families with every protocol number
        for fam in (2, 30):
            for proto in list(range(0, 140)) + [255, 256, 262]:
                s = list(base_s)
                s[0], s[1], s[2] = fam, 3, proto
                window(s, [0, 3, 0, 0], 'family=%d raw protocol=%d' % (fam, proto), 'proto', proto)
    elif hf == 'sockopt':
        for level in (0, 1, 6, 7, 0xfff, 0xffff):
            for opt in (1, 4, 8, 0x1001, 0x1002, 0x2000, 0, 3, 0x1121, 0x7777):      # (the last four: options nobody names)
                s = list(base_s)
                s[1], s[2] = level, opt
                window(s, [0, 0, 0, 0], 'level=%#x opt=%#x' % (level, opt), 'level', level)
    return out


def render(scn, limit=120):
    """The rendered text of the scenario's first `limit` windows on the interpreter's own host: a pure function of the dump -
    also of the interpreter's hash seed (run in a fresh interpreter with another PYTHONHASHSEED by execute)."""
    table = tool.codes()
    out = []
    for label, kind, num, recs in _events(scn)[:limit]:
        parser = tool.tp_mod.TracesParser(table, {}, {})
        try:
            texts = [str(x) for x in parser.feed_generator(worlds.kevents_of(recs))]
            out.append(texts[-1] if texts else None)
        except Exception as e:
            out.append('raised ' + type(e).__name__)
    return out


def execute(scn):
    stats = {}

    def bump(k, v=1):
        stats[k] = stats.get(k, 0) + v
    table = tool.codes()
    evs = _events(scn)
    name = scn['decoder']
    hf = HOST_FIELD.get(name)
    bump('probe:errno_sweep')
    if any(k == 'negret' for _l, k, _n, _r in evs):
        bump('probe:negative_return_words')
    if any('/c' in r_.get('o', '') and any(b > 127 for b in kernel.to_bytes(r_)[8:40]) for _l, _k, _n, rr in evs for r_ in rr):
        bump('probe:path_outside_ascii')
    if scn.get('small'):
        bump('probe:small_word_windows')
    if hf == 'signal':
        bump('probe:signal_sweep')
    if hf == 'socket':
        bump('probe:family_sweep')
        bump('probe:kind_sweep')
    if hf == 'sockopt':
        bump('probe:sockopt_levels')
    if name == 'BSC_pipe':
        bump('probe:pipe_variant')
    if any(e >= 1 << 31 for e in scn['errs']):
        bump('probe:large_error_word')
    viols = []
    hist = []
    texts = {}
    hosts = hostmod.HOSTS
    for h in hosts:
        t = hostmod.tool_for(h)
        row = []
        for label, kind, num, recs in evs:
            parser = t['tp'].TracesParser(table, {}, {})
            try:
                out = [str(x) for x in parser.feed_generator(worlds.kevents_of(recs))]
                row.append(out[-1] if out else None)
            except ValueError as e:
                if 'is not a valid' in str(e):
                    row.append(('out-of-domain', str(e)[:40]))
                    bump('probe:out_of_domain_on_some_host')
                else:
                    row.append(('raised', repr(e)))
            except Exception as e:
                row.append(('raised', repr(e)))
        texts[h] = row
    nontrivial = False
    tabs = {h: hostmod._tables(h) if h != 'linux-real' else None for h in hosts}
    for i, (label, kind, num, _recs) in enumerate(evs):
        vals = {h: texts[h][i] for h in hosts}
        comparable = {h: v for h, v in vals.items() if not (isinstance(v, tuple) and v[0] == 'out-of-domain')}
        if comparable and len(comparable) != len(vals):
            # whether a number is convertible at all must not depend on the host either
            viols.append({'tag': 'host-dependent-domain', 'sig': kind,
                          'detail': '%s %s: decodes on %r, rejected on %r' % (name, label, {h: v for h, v in comparable.items()},
                                                                                 sorted(set(vals) - set(comparable)))})
            continue
        raised = {h: v for h, v in comparable.items() if isinstance(v, tuple)}
        if raised:
            viols.append({'tag': 'raised-on-host', 'sig': kind, 'detail': '%s %s: %r' % (name, label, raised)})
            continue
        distinct = sorted(set(comparable.values()), key=str)
        # is this a number that two simulated hosts name differently?
        idx = {'errno': 0, 'signal': 1, 'family': 2, 'kind': 3}.get(kind)
        if idx is not None:
            names = {tabs[h][idx].get(num) for h in hosts if tabs[h] is not None}
            if len(names) > 1:
                nontrivial = True
        elif kind == 'level':
            nontrivial = True
        if len(distinct) > 1:
            viols.append({'tag': 'host-dependent-text', 'sig': kind,
                          'detail': '%s %s: %r' % (name, label, {h: v for h, v in comparable.items()})})
        # spot oracle
        spot = {'errno': hostmod.SPOT_ERRNO, 'signal': hostmod.SPOT_SIGNAL, 'family': hostmod.SPOT_AF, 'kind': hostmod.SPOT_SOCK}.get(kind, {})
        if num in spot and kind != 'errno' or (kind == 'errno' and num in spot and 'errno' in str(vals['linux-real'])):
            bump('probe:spot_checked')
            for h, v in comparable.items():
                if isinstance(v, str) and not any(nm in v for nm in spot[num]):
                    viols.append({'tag': 'not-the-darwin-name', 'sig': '%s=%d' % (kind, num),
                                  'detail': '%s %s on host %s renders %r; Darwin calls %d %s' % (name, label, h, v, num, '/'.join(spot[num]))})
                    break
        if kind == 'errno' and num != 0 and num not in hostmod.DARWIN_ERRNO:
            import re
            for h, v in comparable.items():
                if isinstance(v, str) and re.search(r'errno: [A-Z][A-Z0-9]+\(', v):
                    viols.append({'tag': 'not-the-darwin-name', 'sig': 'errno-outside-table',
                                  'detail': '%s %s on host %s renders %r; Darwin defines no errno %d' % (name, label, h, v, num)})
                    break
        if kind == 'level' and num == 0xffff:
            for h, v in comparable.items():
                if isinstance(v, str) and 'SOL_SOCKET' not in v:
                    viols.append({'tag': 'not-the-darwin-name', 'sig': 'level=0xffff', 'detail': '%s %s on host %s renders %r' % (name, label, h, v)})
                    break
        if kind == 'level' and num == 1:
            for h, v in comparable.items():
                if isinstance(v, str) and 'SOL_SOCKET' in v:
                    viols.append({'tag': 'not-the-darwin-name', 'sig': 'level=1', 'detail': '%s %s on host %s renders %r (1 is not Darwin\'s SOL_SOCKET)' % (name, label, h, v)})
                    break
        hist.append([label, vals['linux-real'] if isinstance(vals['linux-real'], str) else list(vals['linux-real'])])
    if scn.get('formatted') and evs:
        # the same through the whole file pipeline on two hosts
        bump('probe:formatted_traces_path')
        import io
        recs = [r for _l, _k, _n, rr in evs[:6] for r in rr]
        for j, r in enumerate(recs):
            r['ts'] = 0x1001 + 3 * j
        data, _ = worlds.build_file({'version': 2, 'tmap': [[900, 5, 'proc', '']], 'pad': 0}, [kernel.to_bytes(r) for r in recs])
        outs = {}
        for h in ('linux-real', 'darwin', 'scrambled-1'):
            p = hostmod.tool_for(h)['pk'].PyKdebugParser()
            p.color = False
            items, exc = common.drain(lambda: p.formatted_traces(io.BytesIO(data), table))
            outs[h] = items if exc is None else ['raised ' + type(exc).__name__]
        if len({tuple(v) for v in outs.values()}) > 1:
            viols.append({'tag': 'host-dependent-text', 'sig': 'formatted_traces', 'detail': repr(outs)[:600]})
    if scn.get('env'):
        # another interpreter: the same windows rendered in a fresh process whose string hashing is seeded differently (sets and
        # dicts keyed by names iterate in another order there) must read the same
        import json
        import os
        import subprocess
        import sys
        bump('probe:rendered_in_an_interpreter_with_another_hash_seed')
        env_ = dict(os.environ)
        env_['PYTHONHASHSEED'] = str(1 + scn['arg_seed'] % 1000)
        code_ = ("import sys, json; sys.path.insert(0, %r); from simkd.props import c18; "
                 "print(json.dumps(c18.render(json.load(sys.stdin))))" % os.path.dirname(os.path.dirname(os.path.dirname(os.path.abspath(__file__)))))
        try:
            pr_ = subprocess.run([sys.executable, '-c', code_], input=json.dumps(scn), capture_output=True, text=True, timeout=120, env=env_)
            other = json.loads(pr_.stdout) if pr_.returncode == 0 else None
        except Exception:
            other = None
        if other is not None:
            here = render(scn)
            for j_, (a_, b_) in enumerate(zip(here, other)):
                if a_ != b_:
                    viols.append({'tag': 'host-dependent-text', 'sig': 'interpreter-hash-seed',
                                  'detail': '%s window %d: this interpreter renders %r, one started with PYTHONHASHSEED=%s renders %r' % (name, j_, a_, env_['PYTHONHASHSEED'], b_)})
                    break
        else:
            bump('hash_seed_subprocess_failed')
        # the rest of the host: time zone, and a system-wide trace.codes that only some hosts ship.  A v3 dump with one log
        # record, the bundled code table as the tool loads it, and the event listing must come out the same everywhere.
        bump('probe:host_environment_swapped')
        import io
        from ..rng import Rng
        r5 = Rng(scn['arg_seed'])
        evs_l, strs = worlds.gen_logs(r5, 2, [900])
        wspec = {'version': 3, 'tmap': [[900, 5, 'proc', '']], 'chunks': [], 'filler1': '', 'filler2': '', 'gaps': [], 'cpu_info': {}, 'plist_fmt': 'binary',
                 'pad_last': True, 'blocks': [{'kind': 'logs', 'payload': {'Events': evs_l}}, {'kind': 'strings', 'payload': {'StringIndex': {s_: i for i, s_ in enumerate(strs)}}},
                                              {'kind': 'processes', 'payload': {'launchd': 1, 'started': {'$d': 1600000000 + r5.randrange(0, 10 ** 7)}}}]}
        recs0 = [r_ for _l, _k, _n, rr in evs[:2] for r_ in rr]
        # and a call whose path has bytes outside ASCII: paths are the kernel's bytes (UTF-8), not text in the host's encoding
        path_op = {'k': 'sys', 'name': 'BSC_open', 's': [0, 0, 0, 0], 'e': [0, 3, 0, 0],
                   'in': [{'k': 'lookup', 'path': '/tmp/caf\u00e9-' + r5.text(r5.randint(1, 40)), 'vnode': r5.randrange(1, 1 << 48)}]}
        recs0 += kernel.merge([kernel.expand(path_op, 900, worlds.catalog()['ids'], 'p')], [])
        # and a user-stack sample (a callstack of several lines)
        smp_ = worlds.op_sample(r5, flags=8, thd=None, uhdr=(1, 3), udata=[[0x1000, 0x2000, 0x3000, 0]])
        recs0 += kernel.merge([kernel.expand(smp_, 900, worlds.catalog()['ids'], 's')], [])
        for j, r_ in enumerate(recs0):
            r_['ts'] = 0x2001 + 3 * j
        data3, _ = worlds.build_file(wspec, [kernel.to_bytes(r_) for r_ in recs0] + [kernel.records.pack(0x3001, [1, 2, 3, 4], 900, 0xf1230001)])
        outs = {}
        for h in hosts:
            with hostmod.host_environment(h):
                t = hostmod.tool_for(h)
                p = t['pk'].PyKdebugParser()
                p.color = False
                logs_, e1 = common.drain(lambda: p.formatted_logs(io.BytesIO(data3)))
                kev_, e2 = common.drain(lambda: p.formatted_kevents(io.BytesIO(data3)))        # default (bundled) code table
                tr_, e3 = common.drain(lambda: p.formatted_traces(io.BytesIO(data3)))
                # the same listing in colour, and under a process filter that differs from the process name by letter case only
                pc = t['pk'].PyKdebugParser()
                pc.color = True
                trc_, e4 = common.drain(lambda: pc.formatted_traces(io.BytesIO(data3)))
                lgc_, e5 = common.drain(lambda: pc.formatted_logs(io.BytesIO(data3)))
                pf = t['pk'].PyKdebugParser()
                pf.color = False
                pf.filter_process = 'PROC'
                trf_, e6 = common.drain(lambda: pf.formatted_traces(io.BytesIO(data3)))
                lgf_, e7 = common.drain(lambda: pf.formatted_logs(io.BytesIO(data3)))
                cs_, e8 = common.drain(lambda: p.formatted_callstacks(io.BytesIO(data3)))
                # the metadata commands of the command line on that host (a processes section that carries a date)
                import os as _os
                import tempfile
                from click.testing import CliRunner
                from pykdebugparser.__main__ import cli as _cli
                with tempfile.TemporaryDirectory() as td_:
                    pth_ = _os.path.join(td_, 'dump')
                    with open(pth_, 'wb') as f_:
                        f_.write(data3)
                    res_ = CliRunner().invoke(_cli, ['processes', pth_])
                    cs_ = list(cs_) + ['cli processes: ' + (res_.output if res_.exception is None or isinstance(res_.exception, SystemExit) else 'raised ' + type(res_.exception).__name__)]
                outs[h] = [logs_, kev_, tr_, trc_ + lgc_, trf_ + lgf_, cs_, [type(x).__name__ for x in (e1, e2, e3, e4, e5, e6, e7, e8) if x]]
        ref_h = hosts[0]
        for h in hosts[1:]:
            for vi, view in enumerate(('formatted_logs', 'formatted_kevents', 'formatted_traces', 'coloured listings', 'listings under a process filter', 'formatted_callstacks and the metadata command')):
                if outs[h][vi] != outs[ref_h][vi]:
                    a = next(((x, y) for x, y in zip(outs[ref_h][vi], outs[h][vi]) if x != y), (len(outs[ref_h][vi]), len(outs[h][vi])))
                    viols.append({'tag': 'host-dependent-text', 'sig': 'environment:' + view,
                                  'detail': '%s differs between host %s and host %s (time zone / system files / text encoding / os identity): %r' % (view, ref_h, h, a)})
                    break
    seen = set()
    uniq = []
    for v in viols:
        k = v['tag'] + v['sig']
        if k not in seen:
            seen.add(k)
            uniq.append(v)
    return {'violations': uniq[:4], 'digest': digest_of(scn, hist), 'stats': stats, 'nontrivial': nontrivial,
            'shape': repr((name, hf)), 'extent': {'events_decoded': len(evs) * len(hosts), 'hosts': len(hosts)}}
