"""C12 - event filters select exactly the matching subsequence (DESIGN.md 4.12; claimed thinly, see note there).

Request-history machine restricted to listing requests: on ONE long-lived PyKdebugParser a seeded history of filter
reconfigurations (tid / process / class / subclass lists: empty, overlapping, absent, tuple or list), abandoned
half-consumed listings, and judged kevents / os_log_events requests over simulated v2 and v3 dumps."""
from .. import tool, worlds
from ..disk import SimReader
from ..runner import digest_of
from . import common

ID = 'C12'
LEVEL = 'exploration'
RUNS = {'quick': 16000, 'thorough': 300000}
CHUNK = 40
PROBES = ['settings_changed_while_listing_pending', 'cli_filters_compared', 'other_request_while_listing_pending', 'numeric_looking_process_filter', 'tid_zero_filter', 'filter_list_edited_in_place', 'boundary_subclass_event_kept', 'class_filter', 'subclass_filter', 'class_and_subclass', 'tid_filter', 'tid_and_class', 'empty_lists', 'tuple_filter',
          'filter_matches_nothing', 'log_listing', 'log_process_filter_by_name', 'log_process_filter_by_pid', 'log_tid_filter',
          'abandoned_listing_before', 'reconfigured_between_requests', 'v3_dump']
RULE = ('one run = one long-lived PyKdebugParser, a history of 2..7 operations (reconfigure filters, abandoned listing, judged '
        'kevents/os_log_events request) over 1..2 simulated dumps; non-trivial = >= 1 judged request whose filter keeps some but '
        'not all items, issued after >= 1 reconfiguration or abandoned listing on the same object; distinct = history digest')
SHAPE_MEASURE = 'distinct (filter kinds set, request kind, keeps all/some/none) tuples'
ASSUMPTIONS = ['a judged listing is created, exhausted and compared under one configuration (the lazy stages read the filter '
               'attributes when an item is pulled; the statement does not say which instant counts)']


def _gen_filters(rng, dump, stream_ids, tids, procs):
    f = {}
    if rng.chance(0.5):
        f['tid'] = rng.pick(tids + [12345, -1, -5]) if tids else 12345      # (a negative number is no thread's id: nothing matches)
        big = [t for t in tids if t >= 1 << 63]
        if big and rng.chance(0.5):
            f['tid'] = rng.pick(big) - (1 << 64)       # ... not even the thread whose id has the same 64-bit pattern
        if dump.get('lifecycle_tid') is not None and rng.chance(0.5):
            f['tid'] = dump['lifecycle_tid']
    classes = sorted({i >> 24 for i in stream_ids})
    subs = sorted({i >> 16 for i in stream_ids})
    r = rng.random()
    if r < 0.35:
        f['cls'] = [rng.pick(classes + [0x99, 0x040c, 0x0701]) for _ in range(rng.randint(1, 3))] if classes else [0x99]
    elif r < 0.55:
        f['sub'] = [rng.pick(subs + [0x9999]) for _ in range(rng.randint(1, 3))] if subs else [0x9999]
        if classes and rng.chance(0.2):
            f['sub'].append(rng.pick(classes))       # a subclass value below 0x100 (class 0): it is not that class
    elif r < 0.75:
        f['cls'] = [rng.pick(classes + [0x99])] if classes else [0x99]
        f['sub'] = [rng.pick(subs + [0x9999]) for _ in range(rng.randint(1, 2))] if subs else [0x9999]
    elif r < 0.85:
        f['cls'] = []
        f['sub'] = []
    if rng.chance(0.3):
        f['proc'] = rng.pick(procs) if procs and rng.chance(0.75) else rng.pick(['nosuch', '', '', '0'])
        if len(f['proc']) > 19 and rng.chance(0.5):
            f['proc'] = f['proc'][:19]          # the name as a thread map would have truncated it: a different string
        if f['proc'].isdigit() and rng.chance(0.3):
            # not the decimal text of the pid, only something int() would accept
            f['proc'] = rng.pick(['0' + f['proc'], '+' + f['proc'], ' ' + f['proc'], f['proc'] + ' ', f['proc'][:1] + '_' + f['proc'][1:] if len(f['proc']) > 1 else '00' + f['proc']])
    if classes and rng.chance(0.08):
        # a class together with several subclasses OF THAT CLASS (they add nothing: every event of the class is kept anyway)
        c = rng.pick(classes)
        f['cls'] = [c] + ([rng.pick(classes)] if rng.chance(0.3) else [])
        f['sub'] = sorted({(c << 8) | rng.pick([0, 1, 2, 0x0c, 0x7f, 0xfe]) for _ in range(rng.randint(2, 3))})
        if rng.chance(0.5):
            rng.shuffle(f['sub'])
    if rng.chance(0.12):
        # entries that are no class / subclass at all: negative, one byte too wide, an event id's spelling - they match nothing
        if f.get('cls') and classes:
            c = rng.pick(classes)
            f['cls'].append(rng.pick([c - 256, -1, -256, c + 256, c << 24, c << 8, -c]))
        if f.get('sub') and subs:
            s_ = rng.pick(subs)
            f['sub'].append(rng.pick([s_ << 16, s_ - 65536, s_ + 65536, -1, -s_]))
        if 'cls' not in f and 'sub' not in f and classes:
            f['cls'] = [rng.pick(classes) - 256]
    f['as_tuple'] = rng.chance(0.3)
    return f


def generate(rng, index, tier):
    dumps = [worlds.gen_dump(rng, version=rng.pick([2, 3, 3]), mix={'bsd': 3, 'path': 2, 'mach': 3, 'tracedom': 2, 'perf': 1,
                                                                      'dyld': 1, 'unknown': 1, 'turnstile': 1},
                             declare_all=False) for _ in range(rng.randint(1, 2))]
    # records at the edges of the class / subclass id space (subclass 0x00 and 0xff of a class, codes at both ends of
    # a subclass), of classes that are in use and of their numeric neighbours
    for d in dumps:
        used = sorted({r['id'] >> 24 for th in d['threads'] for r in worlds.kernel.expand_threads([th], worlds.catalog()['ids'])[0]}) or [4]
        for _ in range(rng.randint(0, 4)):
            c = (rng.pick(used) + rng.pick([0, 0, 0, 1, -1])) & 0xff
            if rng.chance(0.2):
                # class 0 with a subclass byte that equals a class in use (0x00040010 is not a class-4 event)
                th = rng.pick(d['threads'])
                th['ops'].insert(rng.randrange(len(th['ops']) + 1),
                                 {'k': 'raw', 'id': (rng.pick(used) << 16) | (rng.randrange(0, 1 << 14) << 2), 'q': rng.randrange(4), 'a': rng.words()})
            sub = rng.pick([0x00, 0xff, 0xfe, 0x01, rng.randrange(256)])
            code = rng.pick([0, 0xfffc, rng.randrange(0, 1 << 14) << 2])
            th = rng.pick(d['threads'])
            th['ops'].insert(rng.randrange(len(th['ops']) + 1),
                             {'k': 'raw', 'id': (c << 24) | (sub << 16) | code, 'q': rng.randrange(4), 'a': rng.words()})
    for d in dumps:
        if rng.chance(0.25):
            old = d['threads'][0]['tid']
            d['threads'][0]['tid'] = 0          # thread id 0 is a legal thread id (and a legal filter value)
            for t in d['writer'].get('tmap', []):
                if t[0] == old:
                    t[0] = 0
    for d in dumps:
        if rng.chance(0.25):
            # one thread logs the end of its life (terminate naming itself, then terminate-pid) and the id goes on being used
            th = rng.pick(d['threads'])
            th['ops'].insert(rng.randrange(max(1, len(th['ops']))), {'k': 'seq', 'ops': [
                {'k': 'one', 'name': 'TRACE_DATA_THREAD_TERMINATE', 'q': 0, 'a': [th['tid'], th['tid'], 0, 0]},
                {'k': 'one', 'name': 'TRACE_DATA_THREAD_TERMINATE_PID', 'q': 0, 'a': [77, rng.word(), 0, 0]}]})
            d['lifecycle_tid'] = th['tid']
    hist = []
    for _ in range(rng.randint(2, 7)):
        di = rng.randrange(len(dumps))
        d = dumps[di]
        ids_ = worlds.catalog()['ids']
        sids = []
        for th in d['threads']:
            for r in worlds.kernel.expand_threads([th], ids_)[0]:
                sids.append(r['id'])
        tids = [th['tid'] for th in d['threads']]
        procs = []
        inv = {}
        for b in d['writer'].get('blocks', []):
            if b['kind'] == 'strings':
                inv = {v: k for k, v in b['payload']['StringIndex'].items()}
        for b in d['writer'].get('blocks', []):
            if b['kind'] == 'logs':
                procs += [inv[ev['p']] for ev in b['payload']['Events'] if 'p' in ev and ev['p'] in inv]
                procs += [str(ev['pid']) for ev in b['payload']['Events'] if 'pid' in ev]
                # the way a line prints a process - name(pid) - is neither its name nor its pid
                procs += ['%s(%d)' % (inv[ev['p']], ev['pid']) for ev in b['payload']['Events'] if 'p' in ev and ev['p'] in inv and 'pid' in ev]
        r = rng.random()
        if r < 0.3:
            hist.append({'op': 'set', 'filters': _gen_filters(rng, d, sids, tids, procs)})
        elif r < 0.4:
            # the caller edits the lists it handed over, in place (append / remove), instead of assigning new ones
            classes = sorted({i >> 24 for i in sids}) or [4]
            subs = sorted({i >> 16 for i in sids}) or [0x40c]
            hist.append({'op': 'mutate', 'which': rng.pick(['cls', 'sub']), 'how': rng.pick(['append', 'append', 'remove', 'clear']),
                         'value': rng.pick(classes) if rng.chance(0.5) else rng.pick(subs)})
        elif r < 0.5:
            hist.append({'op': 'abandon', 'dump': di, 'what': rng.pick(['kevents', 'logs']), 'after': rng.randint(0, 3)})
        else:
            req = {'op': 'request', 'dump': di, 'what': rng.pick(['kevents', 'kevents', 'logs'])}
            if rng.chance(0.1):
                req['reconfigured_while_pending'] = _gen_filters(rng, d, sids, tids, procs) if rng.chance(0.6) else {}
                req['in_place'] = rng.chance(0.5)
            elif rng.chance(0.25):
                # between creating the judged listing and consuming it, ANOTHER request is issued on the same object
                # (the configuration stays as it is)
                req['meanwhile'] = {'what': rng.pick(['traces', 'traces', 'kevents', 'callstacks', 'logs']), 'dump': rng.randrange(len(dumps)),
                                    'pull': rng.randint(0, 3)}
            hist.append(req)
    if not any(h['op'] == 'request' for h in hist):
        hist.append({'op': 'request', 'dump': 0, 'what': 'kevents'})
    return {'dumps': dumps, 'history': hist, 'earlier_other': rng.chance(0.12), 'cli': index % 20 == 7}


def apply_filters(p, f):
    conv = tuple if f.get('as_tuple') else list
    p.filter_tid = f.get('tid')
    p.filter_process = f.get('proc')
    p.filter_class = conv(f.get('cls', []))
    p.filter_subclass = conv(f.get('sub', []))


def event_pred(f):
    def pred(e):
        if f.get('tid') is not None and e.tid != f['tid']:
            return False
        cls, sub = f.get('cls') or [], f.get('sub') or []
        if cls or sub:
            return (e.eventid >> 24) in cls or (e.eventid >> 16) in sub
        return True
    return pred


def log_pred(f):
    def pred(lg):
        if f.get('tid') is not None and lg.thread_identifier != f['tid']:
            return False
        if f.get('proc') is not None and f['proc'] not in (lg.process, str(lg.process_identifier)):
            return False
        return True
    return pred


def execute(scn):
    stats = {}

    def bump(k, v=1):
        stats[k] = stats.get(k, 0) + v
    files = [worlds.dump_bytes(d)[0] for d in scn['dumps']]
    refs = {}

    def ref(di, what):
        if (di, what) not in refs:
            p = tool.pk_mod.PyKdebugParser()
            items, exc = common.drain(lambda: (p.kevents if what == 'kevents' else p.os_log_events)(SimReader(files[di])))
            refs[(di, what)] = (items, exc)
        return refs[(di, what)]
    if scn.get('earlier_other'):
        for di_, d_ in enumerate(scn['dumps']):
            _d, st_, tb_ = worlds.dump_bytes(d_)
            common.pollute_other_objects(tb_, st_, files[di_])
        bump('fault:residue')
        bump('earlier_other_objects')
    p = tool.pk_mod.PyKdebugParser()
    cur = {}
    viols = []
    hist = []
    shapes = set()
    dirty = False
    nontrivial = False
    held = []
    for h in scn['history']:
        op = h['op']
        if op == 'mutate':
            lst = p.filter_class if h['which'] == 'cls' else p.filter_subclass
            if isinstance(lst, list):
                val = h['value'] if (h['which'] == 'cls') == (h['value'] < 256) else (h['value'] >> 8 if h['which'] == 'cls' else h['value'] << 8)
                if h['how'] == 'append':
                    lst.append(val)
                elif h['how'] == 'remove' and lst:
                    lst.pop(0)
                elif h['how'] == 'clear':
                    del lst[:]
                # (what the caller's lists now hold is tracked here, independently of the tool's attributes: if the two lists
                #  were one object inside the tool, reading them back would hide it)
                cur = dict(cur)
                mine = list(cur.get('cls') or []) if h['which'] == 'cls' else list(cur.get('sub') or [])
                if h['how'] == 'append':
                    mine.append(val)
                elif h['how'] == 'remove' and mine:
                    mine.pop(0)
                elif h['how'] == 'clear':
                    mine = []
                cur['cls' if h['which'] == 'cls' else 'sub'] = mine
                cur.setdefault('cls', [])
                cur.setdefault('sub', [])
                cur['as_tuple'] = False
                dirty = True
                bump('probe:filter_list_edited_in_place')
                bump('fault:reconfigure')
            continue
        if op == 'set':
            cur = h['filters']
            apply_filters(p, cur)
            dirty = True
            bump('probe:reconfigured_between_requests')
            bump('fault:reconfigure')
            continue
        di = h['dump'] % len(files)
        what = h['what']
        if scn['dumps'][di]['writer']['version'] == 3:
            bump('probe:v3_dump')
        if op == 'abandon':
            try:
                g = iter((p.kevents if what == 'kevents' else p.os_log_events)(SimReader(files[di])))
                for _ in range(h.get('after', 0)):
                    if next(g, None) is None:
                        break
                held.append(g)
            except Exception:
                pass
            dirty = True
            bump('probe:abandoned_listing_before')
            bump('fault:abandon')
            hist.append(['abandon', what])
            continue
        if h.get('reconfigured_while_pending'):
            # the settings change between making the listing and reading it.  Which instant's settings the listing follows is
            # not judged; what holds under any settings is: an event listing holds events of the dump, in file order, and no
            # log record; a log listing holds log records only
            bump('probe:settings_changed_while_listing_pending')
            bump('fault:reconfigure')
            newf = h['reconfigured_while_pending']
            in_place = bool(h.get('in_place')) and isinstance(p.filter_class, list) and isinstance(p.filter_subclass, list)
            try:
                pending = (p.kevents if what == 'kevents' else p.os_log_events)(SimReader(files[di]))
                if in_place:
                    # only the two lists change, and they are edited as the objects they are
                    p.filter_class[:] = list(newf.get('cls') or [])
                    p.filter_subclass[:] = list(newf.get('sub') or [])
                else:
                    apply_filters(p, newf)
                items, exc = common.drain(lambda: pending)
            except Exception as e:
                items, exc = [], e
            # (no instant is demanded here: the unchanged tree itself decides WHETHER to filter when the listing is made and reads the
            #  lists' contents when it is read - a listing made with [4] and read after the list was emptied in place is empty)
            apply_filters(p, cur)
            ritems, rexc = ref(di, what)
            if exc is None and rexc is None:
                if what == 'kevents':
                    if any(common.is_log(e) for e in items):
                        viols.append({'tag': 'log-in-event-listing', 'sig': 'kevents:reconfigured', 'detail': 'settings %r changed to %r while the listing was pending' % (cur, h['reconfigured_while_pending'])})
                    else:
                        allev = [common.ev_tuple(e) for e in ritems]
                        it_ = iter(allev)
                        if not all(any(x == y for y in it_) for x in (common.ev_tuple(e) for e in items)):
                            viols.append({'tag': 'listing-not-a-subsequence', 'sig': 'kevents:reconfigured', 'detail': 'events listed that the dump does not hold in that order'})
                elif any(not common.is_log(e) for e in items):
                    viols.append({'tag': 'event-in-log-listing', 'sig': 'logs:reconfigured', 'detail': ''})
            hist.append(['request-reconfigured', what, len(items), type(exc).__name__ if exc else None])
            continue
        if h.get('meanwhile'):
            mw = h['meanwhile']
            bump('probe:other_request_while_listing_pending')
            bump('fault:interleaved_request')
            pending = None
            try:
                pending = (p.kevents if what == 'kevents' else p.os_log_events)(SimReader(files[di]))
                fn = {'traces': lambda rd: p.traces(rd, tool.codes()), 'callstacks': lambda rd: p.callstacks(rd, tool.codes()),
                      'kevents': p.kevents, 'logs': p.os_log_events}[mw['what']]
                other = iter(fn(SimReader(files[mw['dump'] % len(files)])))
                for _ in range(mw.get('pull', 0)):
                    if next(other, None) is None:
                        break
                held.append(other)
            except Exception:
                pass
            items, exc = common.drain(lambda: pending) if pending is not None else ([], None)
        else:
            items, exc = common.drain(lambda: (p.kevents if what == 'kevents' else p.os_log_events)(SimReader(files[di])))
        ritems, rexc = ref(di, what)
        if rexc is not None or exc is not None:
            hist.append(['request', what, 'exc', type(exc).__name__ if exc else None, type(rexc).__name__ if rexc else None])
            if (exc is None) != (rexc is None):
                viols.append({'tag': 'filtered-run-raises-differently', 'sig': what, 'detail': 'filtered %r, unfiltered %r' % (exc, rexc)})
            continue
        if what == 'kevents':
            pred = event_pred(cur)
            want = [common.ev_tuple(e) for e in ritems if pred(e)]
            got = []
            for e in items:
                if common.is_log(e):
                    viols.append({'tag': 'log-in-event-listing', 'sig': 'kevents', 'detail': repr(e)[:200]})
                    break
                got.append(common.ev_tuple(e))
            if cur.get('cls'):
                bump('probe:class_filter')
                if any(((e.eventid >> 16) & 0xff) in (0x00, 0xff) and (e.eventid >> 24) in cur['cls'] for e in ritems):
                    bump('probe:boundary_subclass_event_kept')
            if cur.get('sub'):
                bump('probe:subclass_filter')
            if cur.get('cls') and cur.get('sub'):
                bump('probe:class_and_subclass')
            if cur.get('tid') == 0:
                bump('probe:tid_zero_filter')
            if cur.get('tid') is not None:
                bump('probe:tid_filter')
                if cur.get('cls') or cur.get('sub'):
                    bump('probe:tid_and_class')
            if 'cls' in cur and not cur['cls'] and not cur.get('sub'):
                bump('probe:empty_lists')
            if cur.get('as_tuple'):
                bump('probe:tuple_filter')
        else:
            bump('probe:log_listing')
            pred = log_pred(cur)
            if any(not common.is_log(e) for e in items):
                viols.append({'tag': 'event-in-log-listing', 'sig': 'logs', 'detail': ''})
            want = [repr(e) for e in ritems if pred(e)]
            got = [repr(e) for e in items]
            if cur.get('proc') and not cur['proc'].isdigit() and cur['proc'].strip().lstrip('+').replace('_', '').isdigit():
                bump('probe:numeric_looking_process_filter')
            if cur.get('proc') is not None and ritems:
                bump('probe:log_process_filter_by_pid' if cur['proc'].isdigit() else 'probe:log_process_filter_by_name')
            if cur.get('tid') is not None and ritems:
                bump('probe:log_tid_filter')
        if not want and ritems:
            bump('probe:filter_matches_nothing')
        keeps = 'all' if len(want) == len(ritems) else ('none' if not want else 'some')
        if keeps == 'some' and dirty:
            nontrivial = True
        shapes.add((tuple(sorted(k for k in cur if cur.get(k) not in (None, [], False))), what, keeps))
        if got != want:
            j = next((j for j in range(max(len(got), len(want))) if j >= len(got) or j >= len(want) or got[j] != want[j]), 0)
            viols.append({'tag': 'listing-differs', 'sig': what + ':' + ('extra' if len(got) > len(want) else 'missing' if len(got) < len(want) else 'order'),
                          'detail': 'filters %r: %d items, want %d of %d; first difference at %d: got %r want %r' % (
                              cur, len(got), len(want), len(ritems), j, got[j] if j < len(got) else None, want[j] if j < len(want) else None)})
        hist.append(['request', what, len(got), len(want)])
    if scn.get('cli') and not viols:
        # the command line's filters (decimal, zero-padded decimal, 0x-hex class/subclass values) select what the library selects
        import os
        import tempfile
        from click.testing import CliRunner
        from pykdebugparser.__main__ import cli
        bump('probe:cli_filters_compared')
        d0 = scn['dumps'][0]
        tids = [th['tid'] for th in d0['threads'] if th['tid'] < 10 ** 9]
        sids = sorted({common.ev_tuple(e)[5] for e in ref(0, 'kevents')[0]}) if ref(0, 'kevents')[1] is None else []
        with tempfile.TemporaryDirectory() as td:
            path = os.path.join(td, 'dump')
            with open(path, 'wb') as f:
                f.write(files[0])
            trials = []
            if tids:
                t = tids[0]
                trials += [(['--tid', str(t)], {'tid': t}), (['--tid', '0' + str(t)], {'tid': t}), (['--tid', '00' + str(t)], {'tid': t})]
            if sids:
                c, s_ = sids[0] >> 24, sids[-1] >> 16
                trials += [(['-cf', str(c)], {'cls': [c]}), (['-cf', hex(c)], {'cls': [c]}), (['-sf', hex(s_), '-cf', '0x%02x' % c], {'cls': [c], 'sub': [s_]}),
                           (['-sf', str(s_)], {'sub': [s_]}),
                           # numbers that are no class / subclass at all (an event id's spelling of one, a value one byte too wide):
                           # they select nothing, through the command line as through the library
                           (['-sf', hex(s_ << 16)], {'sub': [s_ << 16]}), (['-cf', hex(c << 24)], {'cls': [c << 24]}),
                           (['-cf', str(c + 256)], {'cls': [c + 256]}), (['-sf', hex(s_ + 0x10000), '-cf', hex(c << 8)], {'cls': [c << 8], 'sub': [s_ + 0x10000]})]
            for args, f_ in trials:
                res = CliRunner().invoke(cli, ['kevents', path] + args)
                lp = tool.pk_mod.PyKdebugParser()
                apply_filters(lp, dict(f_, as_tuple=True))
                items, exc = common.drain(lambda: lp.formatted_kevents(SimReader(files[0])))
                want = ''.join(x + '\n' for x in items)
                if exc is None and res.exception is None and res.output != want:
                    viols.append({'tag': 'cli-filter-differs', 'sig': args[0], 'detail': 'kevents %r printed %d lines, the library with %r gives %d' % (args, res.output.count('\n'), f_, len(items))})
                elif exc is None and res.exception is not None and not isinstance(res.exception, SystemExit):
                    viols.append({'tag': 'cli-filter-differs', 'sig': args[0] + ':raised', 'detail': 'kevents %r raised %r' % (args, res.exception)})
    return {'violations': viols[:3], 'digest': digest_of(scn, hist), 'stats': stats, 'nontrivial': nontrivial,
            'shape': repr(sorted(shapes)), 'extent': {'requests': len(hist)}}
