"""Helpers shared by property modules."""
import contextlib
import io

from .. import tool
from ..disk import SimBudgetExceeded, SimReader


def exc_sig(e):
    """Signature of an exception: type + innermost frame inside the repo's package (file:function)."""
    import traceback
    tb = traceback.extract_tb(e.__traceback__)
    where = ''
    for fr in tb:
        if '/pykdebugparser/' in fr.filename:
            where = fr.filename.split('/pykdebugparser/')[-1] + ':' + fr.name
    return '%s@%s' % (type(e).__name__, where)


def drain(gen, limit=None):
    """Pull everything from a generator; returns (items, exception-or-None).  SimBudgetExceeded propagates."""
    items = []
    try:
        if callable(gen):      # creating the generator is part of the request and may itself stop with an error
            gen = gen()
        for x in gen:
            items.append(x)
            if limit is not None and len(items) >= limit:
                break
    except SimBudgetExceeded:
        raise
    except Exception as e:  # the tool is allowed to stop with any error
        return items, e
    return items, None


def is_log(x):
    return isinstance(x, tool.log_mod.OsLogEvent)


def new_parser(**attrs):
    p = tool.pk_mod.PyKdebugParser()
    for k, v in attrs.items():
        setattr(p, k, v)
    return p


def capture_print(gen, count):
    """Run the real print_with_count with stdout captured."""
    from pykdebugparser.__main__ import print_with_count
    buf = io.StringIO()
    with contextlib.redirect_stdout(buf):
        print_with_count(gen, count)
    return buf.getvalue()


def ev_tuple(e):
    return (e.timestamp, e.data, tuple(e.values), e.tid, e.debugid, e.eventid, e.func_qualifier)


def pollute_other_objects(table, stream, data=None):
    """An earlier use of the library in the same process through OTHER objects: a TracesParser / CallstacksParser pair fed the
    STARTs, data records, image maps and first chunks of the stream (operations left unfinished), and - when dump bytes are
    given - a PyKdebugParser that listed, traced and symbolicated that dump.  Nothing of this may reach objects created later
    (no module-level caches, class attributes or mutable default arguments)."""
    from .. import kernel
    tp = {r['t']: 424242 for r in stream}
    if len(stream) % 2:
        # that earlier user had its own code table: helper names missing, some ids under other names
        table = {k: v for k, v in table.items() if not v.startswith(('PERF_STK', 'PERF_THD', 'DYLD_uuid', 'RealFault', 'VFS_', 'TRACE_STRING'))}
        for r in stream[:4]:
            table.setdefault(r['id'], 'MACH_MKRUNNABLE')
    ep = tool.tp_mod.TracesParser(table, tp, {424242: 'earlier'})
    cp = tool.cs_mod.CallstacksParser([], [])

    def gen():
        for r in stream:
            nm = table.get(r['id'], '')
            if r['q'] in (1, 2) or nm.startswith(('TRACE_DATA', 'DYLD_uuid', 'PERF_STK', 'PERF_THD')) or (r['q'] == 0 and '/c' in r['o']):
                try:
                    t = ep.feed(tool.kevent(kernel.to_bytes(r)))
                except Exception:
                    continue
                if t is not None:
                    yield t
    try:
        for _ in cp.feed_generator(gen()):
            pass
    except Exception:
        pass
    if data is not None:
        other = tool.pk_mod.PyKdebugParser()
        other.filter_class = [4]
        for fn in (lambda rd: other.kevents(rd), lambda rd: other.traces(rd, table), lambda rd: other.callstacks(rd, table),
                   lambda rd: other.os_log_events(rd)):
            drain(lambda: fn(SimReader(data[:max(0, len(data) * 2 // 3)])))
