"""Helpers shared by property modules."""
import contextlib
import io

from .. import tool
from ..disk import SimBudgetExceeded, SimReader


def exc_sig(e):
    """Signature of an exception: type + innermost frame inside the repo's package (file:function)."""
    import traceback
    tb = traceback.extract_tb(e.__traceback__)
    where = ''
    for fr in tb:
        if '/pykdebugparser/' in fr.filename:
            where = fr.filename.split('/pykdebugparser/')[-1] + ':' + fr.name
    return '%s@%s' % (type(e).__name__, where)


def drain(gen, limit=None):
    """Pull everything from a generator; returns (items, exception-or-None).  SimBudgetExceeded propagates."""
    items = []
    try:
        if callable(gen):      # creating the generator is part of the request and may itself stop with an error
            gen = gen()
        for x in gen:
            items.append(x)
            if limit is not None and len(items) >= limit:
                break
    except SimBudgetExceeded:
        raise
    except Exception as e:  # the tool is allowed to stop with any error
        return items, e
    return items, None


def is_log(x):
    return isinstance(x, tool.log_mod.OsLogEvent)


def new_parser(**attrs):
    p = tool.pk_mod.PyKdebugParser()
    for k, v in attrs.items():
        setattr(p, k, v)
    return p


def capture_print(gen, count):
    """Run the real print_with_count with stdout captured."""
    from pykdebugparser.__main__ import print_with_count
    buf = io.StringIO()
    with contextlib.redirect_stdout(buf):
        print_with_count(gen, count)
    return buf.getvalue()


def ev_tuple(e):
    return (e.timestamp, e.data, tuple(e.values), e.tid, e.debugid, e.eventid, e.func_qualifier)
