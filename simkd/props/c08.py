"""C08 - paths, global strings and thread names split over several records are reassembled exactly, once
(DESIGN.md 4.8).

World: path-taking syscalls (every decoder that consults lookups, discovered from the live table), bare lookups,
global strings and thread names at every chunk-boundary length.  Between the records of one item the simulator
places interrupt handlers' START/END pairs and unrelated single records on the same tid, and - through the seeded
scheduler - records of other threads, including their own half-finished lookups and strings."""
import dataclasses

from .. import domains, kernel, tool, worlds
from ..runner import digest_of
from .c05 import draw_sensitive

ID = 'C08'
LEVEL = 'exploration'
RUNS = {'quick': 40000, 'thorough': 800000}
CHUNK = 100
PROBES = ['clock_does_not_advance', 'same_call_retried', 'complete_item_between_chunks', 'stale_start_reopened_inside_item', 'unfinished_earlier_call_same_syscall', 'empty_path_vnode_zero', 'timestamp_ties_inside_item', 'lookup_len_boundary', 'lookup_multi_chunk', 'lookup_none_fragment', 'gstr_multi_chunk', 'gstr_none_fragment',
          'tname_two_records', 'interrupt_between_chunks', 'single_between_chunks', 'other_thread_between_chunks',
          'other_thread_half_lookup_between', 'window_more_lookups_than_paths', 'window_fewer_lookups_than_paths',
          'window_exact_lookups', 'two_path_syscall', 'multibyte_across_boundary', 'len_184', 'len_0']
RULE = ('one run = 1..3 threads with 1..4 multi-record items each (path syscalls with 0..3+ lookups, bare lookups, global '
        'strings, thread names; text lengths biased to every chunk boundary +-1), with interrupt pairs / unrelated singles '
        'on the same tid and other threads\' records between the chunks; non-trivial = >= 1 item of >= 2 records with '
        '>= 1 foreign record between its records; distinct = distinct history digest')
SHAPE_MEASURE = 'distinct (item kind, number of chunks, kinds of records in between, lookups vs shown paths) tuples'
ASSUMPTIONS = ['the kernel encoders (kdebug_vfs_lookup, kernel_debug_string_internal/_simple) are modelled from XNU sources',
               'between the chunks of an item any unrelated same-thread record may sit (ordinary or trace class), never a record of the same kind of item',
               'thread names are at most 64 bytes (MAXTHREADNAMESIZE), texts are valid UTF-8 without NUL']


def _between(rng, tid=None, host='sys'):
    r = rng.random()
    cat = worlds.catalog()
    if r < 0.12 and host != 'tname':
        # a complete two-record item of another kind (a thread name announced between the chunks of a string or a lookup)
        return {'k': 'tname', 'text': rng.text(rng.pick([33, 40, 60]), multibyte=False), 'prev': False}
    if r < 0.2 and host != 'gstr':
        return {'k': 'gstr', 'id': 900000 + rng.randrange(1000), 'dbgid': rng.randrange(1 << 20), 'text': rng.text(rng.pick([17, 30, 48, 49]))}
    if r < 0.5:
        s, e = domains.draw(rng, 'INTERRUPT')
        return {'k': 'sys', 'name': 'INTERRUPT', 's': s, 'e': e, 'in': []}
    if r < 0.6:
        return worlds.op_single(rng, rng.pick(cat['mach'][:20] + cat['turnstile']))
    if r < 0.8 and tid is not None:
        # a trace-class record that names a thread (its own, or any other), with binary arguments: unrelated to the item it
        # sits in, be that a lookup, a global string or a thread name
        return {'k': 'one', 'name': rng.pick(['TRACE_DATA_THREAD_TERMINATE', 'TRACE_DATA_THREAD_TERMINATE', 'TRACE_DATA_NEWTHREAD', 'TRACE_DATA_THREAD_TERMINATE_PID']), 'q': 0,
                'a': [rng.pick([tid, tid, 12345, 0x9f3a1ff, 0x4142434445]), 77, 0, 0]}
    eid, _ = rng.pick(cat['undecoded'])
    return {'k': 'raw', 'id': eid, 'q': 0, 'a': rng.words()}


def _decorate(rng, op, nchunks_est, tid=None):
    if rng.chance(0.45):
        btw = {}
        for _ in range(rng.randint(1, 2)):
            btw.setdefault(str(rng.randrange(0, max(1, nchunks_est))), []).append(_between(rng, tid, op['k']))
        op['between'] = btw
    return op


def _stale_start(rng, host):
    """A START-qualified record of an unrelated code whose END never comes; the same code starts again later (inside the item):
    the window table of the item (lookups and calls: events; strings and names: trace class) holds the stale entry meanwhile."""
    ids = worlds.catalog()['ids']
    if host in ('gstr', 'tname'):
        eid = ids[rng.pick(['TRACE_DATA_THREAD_TERMINATE', 'TRACE_DATA_EXEC', 'TRACE_STRING_PROC_EXIT'])]
    else:
        eid = rng.pick([ids['INTERRUPT'], ids['MACH_vmfault'], rng.pick(worlds.catalog()['undecoded'])[0]])
    return {'k': 'raw', 'id': eid, 'q': 1, 'a': [1, 2, 3, 4]}


def generate(rng, index, tier):
    if index % 3001 == 41:
        n = worlds.dict_size(rng, 70000, k=index // 3001) or 5000
        filler = worlds.op_single(rng, 'MACH_MKRUNNABLE')
        s_, e_ = domains.draw(rng, 'BSC_open')
        if (index // 3001) % 2 == 0:
            # a call that stays open for a named count of unrelated records of its thread, then looks its path up and returns
            op = {'k': 'sys', 'name': 'BSC_open', 's': s_, 'e': e_, 'in': [dict(filler) for _ in range(n)] + [worlds.op_lookup(rng, 70), worlds.op_lookup(rng, 10)]}
            return {'threads': [{'tid': 200, 'ops': [op]}], 'schedule': [], 'long': n}
        # or: that many OTHER threads start something between the chunks of this thread's lookup
        op = {'k': 'sys', 'name': 'BSC_open', 's': s_, 'e': e_, 'in': [worlds.op_lookup(rng, 100)]}
        crowd = [{'tid': 1000 + i, 'ops': [{'k': 'raw', 'id': 0x40c0010, 'q': 1, 'a': [i, 0, 0, 0]}]} for i in range(n)]
        return {'threads': [{'tid': 200, 'ops': [op]}] + crowd, 'schedule': [0, 0] + [1] * n + [0] * 4, 'long': n}
    cat = worlds.catalog()
    nthreads = rng.pick([1, 2, 2, 3])
    threads = []
    pnames = sorted(cat['path_names'])
    for ti in range(nthreads):
        tid = 200 + ti * 13 + rng.randrange(0, 5)
        ctx = worlds.Ctx(ti, tid)
        ops = []
        for _ in range(rng.randint(1, 4)):
            r = rng.random()
            if r < 0.45:
                name = pnames[(index + rng.randrange(len(pnames))) % len(pnames)]
                want = cat['path_names'][name]
                nl = rng.pick([want, want, want, 0, 1, 2, 3, 6 if name == 'BSC_posix_spawn' else want])
                if index % 401 == 17:
                    nl = rng.pick([20, 70, 300])       # a call that resolved very many paths (deep symlink chains, big spawn file actions)
                lookups = []
                for _k in range(nl):
                    lk = worlds.op_lookup(rng)
                    if lookups and rng.chance(0.12):
                        lk = dict(lookups[-1])          # the same path looked up again (same vnode, same text): still a lookup
                        lk.pop('between', None)
                    lookups.append(_decorate(rng, lk, (len(lk['path'].encode()) + 39) // 32, tid))
                if lookups and rng.chance(0.1):
                    # one of the lookups is made by another call that runs to completion inside this one (a nested call)
                    j_ = rng.randrange(len(lookups))
                    # (of another code: a START of the same code would re-open, i.e. replace, the enclosing window)
                    in_name = rng.pick([n_ for n_ in ('BSC_open', 'BSC_read', 'BSC_getpid', 'BSC_stat64', 'BSC_access') if n_ in cat['ids'] and n_ != name])
                    si_, ei_ = domains.draw(rng, in_name)
                    lookups[j_] = {'k': 'sys', 'name': in_name, 's': si_, 'e': ei_, 'in': [lookups[j_]]}
                inner = []
                fs_near = [k for k in cat['all_ids'] if k >> 16 == cat['ids']['VFS_LOOKUP'] >> 16 and k != cat['ids']['VFS_LOOKUP']]
                for lk in lookups:
                    if rng.chance(0.3):
                        inner.append(_between(rng, tid))
                    inner.append(lk)
                    if fs_near and lk.get('k') == 'lookup' and rng.chance(0.3):
                        # what the kernel logs right after a lookup: a single record of a neighbouring file-system code
                        # (lookup done, with the vnode and a result word)
                        pref = [k for k in sorted(fs_near) if tool.codes().get(k, '').startswith('VFS_LOOKUP')]
                        inner.append({'k': 'raw', 'id': rng.pick(pref) if pref and rng.chance(0.6) else rng.pick(sorted(fs_near)), 'q': rng.pick([0, 0, 3]),
                                      'a': [lk['vnode'], rng.pick([0, 0, 2, 13]), 0, 0]})
                if rng.chance(0.3):
                    inner.append(_between(rng))
                s, e = domains.draw(rng, name)
                if name == 'BSC_posix_spawn' and rng.chance(0.4):
                    s[rng.randrange(1, 4)] = 0          # no file actions / no attributes: a null pointer argument
                if rng.chance(0.12):
                    # an earlier call of the same syscall on this thread whose END was lost (its records must not leak into this one)
                    s0, e0 = domains.draw(rng, name)
                    ops.append({'k': 'sys', 'name': name, 's': s0, 'e': e0, 'noend': True,
                                'in': [worlds.op_lookup(rng) for _ in range(rng.randint(1, 2))]})
                ops.append({'k': 'sys', 'name': name, 's': s, 'e': e, 'in': inner})
                if rng.chance(0.1):
                    import copy
                    ops.append(copy.deepcopy(ops[-1]))        # the very same call again (a retry): same arguments, same lookups
            elif r < 0.65:
                lk = worlds.op_lookup(rng)
                ops.append(_decorate(rng, lk, (len(lk['path'].encode()) + 39) // 32))
            elif r < 0.85:
                g = worlds.op_gstr(rng, ctx.new_string_id(), allow_empty=True)
                if rng.chance(0.08):
                    g['id'], g['dbgid'] = rng.pick([(0, 0), (0, g['dbgid']), (g['id'], 0)])      # id 0 / debug id 0 are ids too
                ops.append(_decorate(rng, g, (len(g['text'].encode()) + 47) // 32))
            else:
                n = rng.pick([1, 31, 32, 33, 40, 63, 64, 0])        # (0: a thread whose name was set to the empty string)
                t = {'k': 'tname', 'text': rng.text(n), 'prev': rng.chance(0.25)}
                ops.append(_decorate(rng, t, 2))
            if rng.chance(0.1) and ops and ops[-1]['k'] in ('sys', 'lookup', 'gstr', 'tname') and not ops[-1].get('noend'):
                item = ops[-1]
                st = _stale_start(rng, item['k'])
                ops.insert(len(ops) - 1, st)
                again = dict(st)
                if item['k'] == 'sys':
                    item['in'].insert(rng.randrange(len(item['in']) + 1), again)
                else:
                    nb = len((item.get('path') or item.get('text') or '').encode())
                    nch = 1 + max(0, (nb - (24 if item['k'] == 'lookup' else 16 if item['k'] == 'gstr' else 32) + 31) // 32)
                    if nch >= 2:
                        item.setdefault('between', {}).setdefault(str(rng.randrange(nch - 1)), []).append(again)
                    else:
                        ops.remove(st)
            if rng.chance(0.2):
                ops.append(_between(rng))
        threads.append({'tid': tid, 'ops': ops})
    ids = cat['ids']
    per = kernel.expand_threads(threads, ids)
    shape = rng.pick(['sensitive', 'sensitive', 'uniform', 'rr1', 'serial'])
    sched = draw_sensitive(rng, per, tool.codes()) if shape == 'sensitive' else kernel.draw_schedule(rng, per, shape)
    scn = {'threads': threads, 'schedule': sched, 'tsmode': worlds.draw_tsmode(rng), 'earlier_other': rng.chance(0.15)}
    if rng.chance(0.08):
        scn['tsmode'] = ['frozen', []]
    if rng.chance(0.1):
        scn['table'] = {'remap': {'VFS_LOOKUP': 0x03f00000 | (rng.randrange(1, 1 << 10) << 2)}}
    elif rng.chance(0.08):
        # the caller's table has a second id with the name VFS_LOOKUP (tables do repeat names), and some lookups are logged under it
        alias = 0x03f10000 | (rng.randrange(1, 1 << 10) << 2)
        scn['table'] = {'extra': {str(alias): 'VFS_LOOKUP'}}

        def mark(ops_):
            for op_ in ops_:
                if op_.get('k') == 'lookup' and rng.chance(0.5):
                    op_['eid'] = alias
                for key in ('in', 'ops'):
                    if key in op_:
                        mark(op_[key])
        for th_ in threads:
            mark(th_['ops'])
    return scn


def _path_fields(trace):
    out = []
    for f in dataclasses.fields(trace):
        if f.name in ('result',):
            continue
        if (f.type is str or f.type == 'str') and isinstance(getattr(trace, f.name), (str, type(None))):
            out.append(f.name)   # (some int-valued fields are annotated str in the tree; the value decides)
    return out


def _window_lookups(op):
    """The lookups logged inside a call's window, in stream order - also those that a call nested in it made."""
    out = []
    for sub in op.get('in', []):
        if sub['k'] == 'lookup':
            out.append(sub)
        elif sub['k'] == 'sys' and not sub.get('noend'):
            out += _window_lookups(sub)
        elif sub['k'] == 'seq':
            out += _window_lookups({'in': sub['ops']})
    return out


def _collect_items(threads):
    """(thread index, op path) of every multi-record item and syscall window, by origin prefix."""
    items = []
    known_names = set(tool.ids_by_name(None))

    def walk(op, origin, encl):
        k = op['k']
        if k in ('lookup', 'gstr', 'tname'):
            items.append((origin, op, encl))
            for ci, subs in (op.get('between') or {}).items():
                for j, sub in enumerate(subs):
                    walk(sub, origin + '.b%s_%d' % (ci, j), None)
        elif k == 'sys':
            if op.get('name') not in known_names:
                return           # (a name no table has expands to no records at all, nested ops included)
            items.append((origin, op, encl))
            for i, sub in enumerate(op.get('in', [])):
                walk(sub, origin + '.%d' % i, origin if k == 'sys' else encl)
        elif k == 'seq':
            for i, sub in enumerate(op['ops']):
                walk(sub, origin + '.%d' % i, encl)
    for ti, th in enumerate(threads):
        for oi, op in enumerate(th['ops']):
            walk(op, 'T%d.%d' % (ti, oi), None)
    return items


def execute(scn):
    stats = {}

    def bump(k, v=1):
        stats[k] = stats.get(k, 0) + v
    table, stream = worlds.build_stream(scn)
    events = worlds.kevents_of(stream)
    origin = {id(e): r['o'] for e, r in zip(events, stream)}
    pos_of = {r['o']: i for i, r in enumerate(stream)}
    if scn.get('earlier_other'):
        from .common import pollute_other_objects
        pollute_other_objects(table, stream)
        bump('fault:residue')
        bump('earlier_other_objects')
    tp, pn = {}, {}
    parser = tool.tp_mod.TracesParser(table, tp, pn)
    viols = []
    hist = []
    traces = []
    # a window that lacks lookups the decoder shows is missing context: a raise there is C07's subject, not C08's
    short_windows = set()
    for o, op, _encl in _collect_items(scn['threads']):
        if op['k'] == 'sys' and op['name'] in worlds.catalog()['path_names'] and not op.get('noend'):
            want = 4 if op['name'] == 'BSC_posix_spawn' else worlds.catalog()['path_names'][op['name']]
            if len(_window_lookups(op)) < want:
                short_windows.add(o + '/E')
    for ev in events:
        try:
            t = parser.feed(ev)
        except Exception as e:
            if origin.get(id(ev)) in short_windows:
                bump('raised_on_missing_context')
                continue
            from .common import exc_sig
            viols.append({'tag': 'raised', 'sig': exc_sig(e), 'detail': 'record %s: %r' % (origin.get(id(ev)), e)})
            return {'violations': viols, 'digest': digest_of(scn, ['raised', repr(e)]), 'stats': stats,
                    'nontrivial': False, 'shape': 'raised'}
        if t is not None:
            traces.append(t)
    by_first = {}
    for t in traces:
        kt = t.ktraces
        o = origin.get(id(kt[0]), '?') if kt else '?'
        by_first.setdefault(o, []).append(t)
        hist.append([type(t).__name__, o, str(t)])
    lookup_name, gname = 'VfsLookup', 'TraceStringGlobal'
    # no trace may begin at a continuation record
    for o, ts in by_first.items():
        tail = o.rsplit('/', 1)[-1]
        if tail.startswith('c') and tail != 'c0':
            viols.append({'tag': 'continuation-record-produced-trace', 'sig': type(ts[0]).__name__,
                          'detail': 'record %s (a continuation chunk) begins trace %r' % (o, str(ts[0]))})
    if scn.get('tsmode') and scn['tsmode'][0] == 'frozen':
        bump('probe:clock_does_not_advance')
    for th_ in scn['threads']:
        if any(a_.get('k') == 'sys' and a_ == b_ for a_, b_ in zip(th_['ops'], th_['ops'][1:])):
            bump('probe:same_call_retried')
            break
    items = _collect_items(scn['threads'])
    if any(op['k'] in ('tname', 'gstr') and '.b' in o_ for o_, op, _e in items):
        bump('probe:complete_item_between_chunks')
    if any(r['q'] == 1 and r['o'].endswith('/r') and r['a'] == [1, 2, 3, 4] and ('.b' in r['o'] or r['o'].count('.') >= 2) for r in stream):
        bump('probe:stale_start_reopened_inside_item')
    shapes = set()
    nontrivial = False
    expected_strings = {}
    string_done = {}
    last_tname = {}
    tid_of_thread = {('T%d' % i): th['tid'] for i, th in enumerate(scn['threads'])}
    for o, op, encl in items:
        k = op['k']
        if k in ('lookup', 'gstr', 'tname'):
            raw = (op['path'] if k == 'lookup' else op['text']).encode()
            first_cap = {'lookup': 24, 'gstr': 16, 'tname': 32}[k]
            nchunks = 1 + max(0, (len(raw) - first_cap + 31) // 32)
            chunk_os = [o + '/c%d' % i for i in range(nchunks)]
            if not all(c in pos_of for c in chunk_os):
                continue
            lo, hi = pos_of[chunk_os[0]], pos_of[chunk_os[-1]]
            foreign = [stream[i] for i in range(lo, hi + 1) if stream[i]['o'] not in chunk_os]
            same = [r for r in foreign if r['t'] == stream[lo]['t']]
            other = [r for r in foreign if r['t'] != stream[lo]['t']]
            if nchunks >= 2 and foreign:
                nontrivial = True
            if nchunks >= 2 and len({stream[i]['ts'] for i in range(lo, hi + 1)}) < hi + 1 - lo:
                bump('probe:timestamp_ties_inside_item')
            if same:
                bump('probe:interrupt_between_chunks' if any(table.get(r['id']) == 'INTERRUPT' for r in same) else 'probe:single_between_chunks')
            if other:
                bump('probe:other_thread_between_chunks')
                if any(table.get(r['id']) == 'VFS_LOOKUP' and r['q'] != 3 for r in other):
                    bump('probe:other_thread_half_lookup_between')
            shapes.add((k, min(nchunks, 7), bool(same), bool(other)))
            # multibyte char across a record boundary
            text = op['path'] if k == 'lookup' else op['text']
            bpos = 0
            bounds = set([first_cap + 32 * j for j in range(8)])
            for ch in text:
                b = len(ch.encode())
                if b > 1 and any(bpos < x < bpos + b for x in bounds):
                    bump('probe:multibyte_across_boundary')
                    break
                bpos += b
            got = by_first.get(chunk_os[0], [])
        if k == 'lookup':
            n = len(raw)
            if n in (23, 24, 25, 55, 56, 57, 87, 88, 89, 183, 184):
                bump('probe:lookup_len_boundary')
            if n == 184:
                bump('probe:len_184')
            if n == 0:
                bump('probe:len_0')
                if op['vnode'] == 0:
                    bump('probe:empty_path_vnode_zero')
            if nchunks >= 2:
                bump('probe:lookup_multi_chunk')
            if nchunks >= 3:
                bump('probe:lookup_none_fragment')
            good = [t for t in got if type(t).__name__ == lookup_name]
            if len(good) != 1 or len(got) != 1:
                viols.append({'tag': 'lookup-trace-count', 'sig': 'n=%d' % len(good),
                              'detail': 'lookup %s (%d bytes, %d records): %d lookup traces %r' % (o, n, nchunks, len(good), [str(t) for t in got])})
            else:
                t = good[0]
                if t.path != op['path']:
                    viols.append({'tag': 'lookup-path', 'sig': 'len%%32=%d' % ((n - 24) % 32),
                                  'detail': 'lookup %s: %d-byte path %r reported as %r' % (o, n, op['path'], t.path)})
                if t.vnode_id != op['vnode']:
                    viols.append({'tag': 'lookup-vnode', 'sig': 'chunks=%d' % min(nchunks, 3),
                                  'detail': 'lookup %s: vnode %d reported as %d' % (o, op['vnode'], t.vnode_id)})
        elif k == 'gstr':
            if nchunks >= 2:
                bump('probe:gstr_multi_chunk')
            if nchunks >= 3:
                bump('probe:gstr_none_fragment')
            if op['text']:
                # (an empty string is reported, but defines nothing to look up); when an id is announced more than once the
                # announcement completed last in the stream stands
                if op['id'] not in string_done or string_done[op['id']] < hi:
                    string_done[op['id']] = hi
                    expected_strings[op['id']] = op['text']
            good = [t for t in got if type(t).__name__ == gname]
            if len(good) != 1 or len(got) != 1:
                viols.append({'tag': 'string-trace-count', 'sig': 'n=%d' % len(good),
                              'detail': 'global string %s (%d bytes, %d records): traces %r' % (o, len(raw), nchunks, [str(t) for t in got])})
            else:
                t = good[0]
                if t.vstr != op['text'] or t.str_id != op['id']:
                    viols.append({'tag': 'string-text', 'sig': 'len%%32=%d' % ((len(raw) - 16) % 32),
                                  'detail': 'global string %s: %r id %d reported as %r id %d' % (o, op['text'], op['id'], t.vstr, t.str_id)})
                if getattr(t, 'debugid', op.get('dbgid', 0)) != op.get('dbgid', 0):
                    viols.append({'tag': 'string-debugid', 'sig': 'dbg', 'detail': 'global string %s: debugid %r' % (o, t.debugid)})
        elif k == 'tname':
            if nchunks >= 2:
                bump('probe:tname_two_records')
            if len(got) != 1:
                viols.append({'tag': 'threadname-trace-count', 'sig': 'n=%d' % len(got),
                              'detail': 'thread name %s: traces %r' % (o, [str(t) for t in got])})
            elif got[0].name != op['text']:
                viols.append({'tag': 'threadname-text', 'sig': 'len=%d' % min(len(raw) // 32, 2),
                              'detail': 'thread name %s: %r reported as %r' % (o, op['text'], got[0].name)})
            if chunk_os[-1] in pos_of:
                last_tname[(tid_of_thread[o.split('.')[0]], pos_of[chunk_os[-1]])] = op['text']
        elif k == 'sys' and op['name'] in worlds.catalog()['path_names']:
            if op.get('noend'):
                bump('probe:unfinished_earlier_call_same_syscall')
                if by_first.get(o + '/S'):
                    viols.append({'tag': 'trace-for-unfinished-call', 'sig': op['name'], 'detail': 'a call whose END never arrived produced %r' % [str(t) for t in by_first[o + '/S']]})
                continue
            got = by_first.get(o + '/S', [])
            if o + '/E' in short_windows and not got:
                continue
            if len(got) != 1:
                viols.append({'tag': 'syscall-trace-count', 'sig': op['name'], 'detail': '%s at %s: %d traces' % (op['name'], o, len(got))})
                continue
            t = got[0]
            paths = [sub['path'] for sub in _window_lookups(op)]
            fields = _path_fields(t)
            shown = [getattr(t, f) or '' for f in fields]
            P, L = len(fields), len(paths)
            if P >= 2:
                bump('probe:two_path_syscall')
            if op['name'] == 'BSC_posix_spawn':
                vals = [v for v in shown if v]
                if any(v not in paths for v in vals):
                    viols.append({'tag': 'syscall-path-foreign', 'sig': op['name'],
                                  'detail': '%s: shows %r, lookups were %r' % (op['name'], shown, paths)})
                continue
            text = str(t)
            if L == P:
                bump('probe:window_exact_lookups')
                if shown != paths:
                    viols.append({'tag': 'syscall-paths', 'sig': op['name'],
                                  'detail': '%s with %d lookups %r shows %r' % (op['name'], L, paths, shown)})
            elif L > P:
                bump('probe:window_more_lookups_than_paths')
                from ..model import is_subsequence
                if not is_subsequence(shown, paths):
                    viols.append({'tag': 'syscall-paths', 'sig': op['name'],
                                  'detail': '%s with %d lookups %r shows %r (not an in-order subsequence)' % (op['name'], L, paths, shown)})
            else:
                bump('probe:window_fewer_lookups_than_paths')
                from ..model import is_subsequence
                vals = [v for v in shown if v]
                if not is_subsequence(vals, paths):
                    viols.append({'tag': 'syscall-paths', 'sig': op['name'],
                                  'detail': '%s with %d lookups %r shows %r' % (op['name'], L, paths, shown)})
            for v in shown:
                if v and v not in text:
                    viols.append({'tag': 'syscall-path-not-rendered', 'sig': op['name'], 'detail': '%r not in %r' % (v, text)})
            shapes.add(('sys', P, L))
    # totals: exactly one lookup trace per lookup op, one string trace per string
    nl = sum(1 for t in traces if type(t).__name__ == lookup_name)
    wl = sum(1 for o_, op, _e in items if op['k'] == 'lookup' and o_ + '/c0' in pos_of)      # (items that reached the stream)
    if nl != wl and not any(v['tag'].startswith('lookup-trace') or v['tag'].startswith('continuation') for v in viols):
        viols.append({'tag': 'lookup-trace-total', 'sig': 'more' if nl > wl else 'fewer', 'detail': '%d lookup traces for %d lookups' % (nl, wl)})
    ng = sum(1 for t in traces if type(t).__name__ == gname)
    wg = sum(1 for o_, op, _e in items if op['k'] == 'gstr' and o_ + '/c0' in pos_of)
    if ng != wg and not any(v['tag'].startswith('string-trace') or v['tag'].startswith('continuation') for v in viols):
        viols.append({'tag': 'string-trace-total', 'sig': 'more' if ng > wg else 'fewer', 'detail': '%d string traces for %d strings' % (ng, wg)})
    if parser.global_strings != expected_strings:
        extra = {k: v for k, v in parser.global_strings.items() if expected_strings.get(k) != v}
        missing = {k: v for k, v in expected_strings.items() if k not in parser.global_strings}
        viols.append({'tag': 'global-strings-table', 'sig': 'extra' if extra else 'missing',
                      'detail': 'unexpected entries %r, missing %r' % (extra, missing)})
    want_names = {}
    for (tid, pos), text in sorted(last_tname.items(), key=lambda kv: kv[0][1]):
        want_names[tid] = text
    if parser.tids_names != want_names:
        viols.append({'tag': 'thread-names-table', 'sig': 'tids_names', 'detail': 'got %r want %r' % (parser.tids_names, want_names)})
    return {'violations': viols[:4], 'digest': digest_of(scn, hist), 'stats': stats, 'nontrivial': nontrivial,
            'shape': repr(sorted(shapes)), 'extent': {'records_delivered': len(stream), 'scheduler_steps': len(stream)}}
