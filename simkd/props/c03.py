"""C03 - a version-3 dump yields all chunked events, then logs, plus its metadata sections (DESIGN.md 4.3).

The whole left half is simulated: SimKernel produces the event sequence; the writer's flush schedule cuts it into
1..5 event chunks (empty chunks, cuts between the records of one window or one lookup), with a header plist of every
size mod 8, stackshot filler holding decoy thread-map/event tags, gaps before event tags, and a seeded multiset and
order of metadata/log blocks.  Oracle: conservation and order of events across chunk boundaries, events before
logs, tables and exposed attributes equal to what the writer serialised."""
import copy

from .. import kernel, records, tool, worlds
from ..disk import SimReader
from ..runner import digest_of
from . import common

ID = 'C03'
LEVEL = 'exploration'
RUNS = {'quick': 20000, 'thorough': 400000}
CHUNK = 50
PROBES = ['same_object_abandoned_in_logs', 'tag_straddles_buffer_boundary', 'large_capture', 'special_record', 'partial_tag_prefix_before_tag', 'earlier_dump_other_parser_object', 'multi_chunk', 'empty_chunk', 'cut_inside_window', 'cut_inside_lookup', 'decoy_tag_in_stackshot', 'gap_before_event_tag',
          'header_plist_unaligned', 'two_kext_blocks', 'two_dyld_blocks', 'two_code_blocks', 'two_log_blocks', 'unpadded_last_block',
          'log_extends_tables', 'log_without_pid', 'strings_block_before_logs', 'xml_plists', 'no_blocks', 'unknown_block',
          'log_with_tai', 'cli_run', 'same_object_read_an_earlier_dump_to_its_end', 'code_block_cut_mid_line', 'block_padding_not_zero', 'stream_positioned_behind_a_prefix', 'same_record_on_both_sides_of_chunk_boundary', 'two_listings_of_one_object_under_way', 'two_listings_read_in_turns', 'log_blocks_share_stored_objects', 'log_argument_not_available', 'log_message_several_segments']
RULE = ('one run = one simulated v3 dump (1..3 SimKernel threads, 0..60 records in 1..5 chunks, thread map with duplicate keys, '
        'seeded metadata/log blocks) parsed by the real KdBufParser and by PyKdebugParser.kevents/os_log_events; non-trivial = '
        '>= 2 event chunks or >= 2 blocks of one list-valued kind or >= 1 log that extends the tables; distinct = distinct '
        'history digest')
SHAPE_MEASURE = 'distinct (number of chunks, empty chunk present, block kind order) shapes'
ASSUMPTIONS = ['the v3 layout written is the layout this parser reads (tags, chunk header of size + 8 bytes, blocks padded to 8)',
               'for a log that names a process and a thread but has no pid key, both "extends with pid 0" and "does not extend" are accepted',
               'a decomposed-message argument marked not available (availability 0..2) may carry an object reference that the string '
               'index does not list; such a reference is not resolved, and whether a resolvable one is shown is left open']
STR_FIELDS = {'cm': 'composed_message', 'p': 'process', 'send': 'sender', 'sub': 'subsystem', 'cat': 'category',
              'f': 'format_string', 'pip': 'process_image_path', 'sip': 'sender_image_path', 'sn': 'signpost_name'}


def generate(rng, index, tier):
    threads = worlds.gen_threads(rng, rng.randint(1, 3), 0 if rng.chance(0.05) else 1, 5,
                                 {'bsd': 3, 'path': 4, 'tracedom': 2, 'mach': 1, 'perf': 1, 'unknown': 1, 'lookup': 2})
    ids = worlds.catalog()['ids']
    per = kernel.expand_threads(threads, ids)
    nrec = sum(len(p) for p in per)
    scn = {'threads': threads, 'schedule': kernel.draw_schedule(rng, per, rng.pick(kernel.SHAPES)),
           't0': rng.randrange(1, 1 << 48)}
    scn['writer'] = worlds.gen_writer(rng, 3, threads, nrec, logs=True, with_tai=True)
    w = scn['writer']
    if rng.chance(0.3):
        w['cpu_info'] = {'x': 'y' * rng.randrange(0, 9)}      # every size residue mod 8
    if rng.chance(0.1):
        w['blocks'] = []
    if index % 1201 == 29:
        # a chunk holding as many records as a count the source names (+-1), and a block right above a byte size it names
        nbig = worlds.dict_size(rng, 70000 if tier == 'quick' else 270000, k=index // 1201) or 5000
        scn['bulk_records'] = nbig
        w['chunks'] = [rng.randrange(0, 3)] if rng.chance(0.5) else []
        bs = worlds.dict_bytesize(rng)
        if bs and rng.chance(0.7):
            w['blocks'] = [{'kind': 'codes', 'text': '0x1\tA\n' + 'x' * bs}] + [b for b in w['blocks'] if b['kind'] not in ('logs', 'strings')][:3]
        scn['large'] = True
    elif index % 199 == 11:
        # a long capture: very many event chunks, many blocks of each kind, hundreds of log records
        w['chunks'] = sorted(rng.randrange(0, nrec + 1) for _ in range(rng.pick([64, 130, 300])))
        w['gaps'] = []
        evs, strs = worlds.gen_logs(rng, rng.pick([40, 300]), [t['tid'] for t in threads])
        w['blocks'] = [b for b in w['blocks'] if b['kind'] not in ('logs', 'strings')]
        w['blocks'] += [worlds._gen_block(rng, k) for k in ['kexts', 'dyld', 'codes'] * rng.pick([6, 20])]
        w['blocks'] += [{'kind': 'logs', 'payload': {'Events': evs[i::4]}} for i in range(4)] + [{'kind': 'strings', 'payload': {'StringIndex': {s_: 1000 + 3 * i for i, s_ in enumerate(strs)}}}]
        for b in w['blocks']:
            if b['kind'] == 'logs':
                b['payload']['Events'] = worlds._reindex(b['payload']['Events'], {i: 1000 + 3 * i for i in range(len(strs))})
        rng.shuffle(w['blocks'])
        scn['large'] = True
    if rng.chance(0.2) and w['chunks']:
        w['chunks'].append(rng.pick(w['chunks']))                # an empty chunk
        w['chunks'].sort()
    scn['api'] = rng.pick(['kd', 'kd', 'pk'])
    if w['chunks'] and rng.chance(0.15):
        scn['same_record_across_boundary'] = rng.randint(1, 3)
    if rng.chance(0.1):
        scn['prefix'] = rng.randint(1, 15)
        if rng.chance(0.5):
            w['filler1'] = ''          # (no stackshot at all: the end marker follows the header padding directly)
    if rng.chance(0.25):
        # records a kernel buffer can hold besides decoded ones: all-zero slots, all-ones, zero timestamp and debugid
        scn['special'] = [[rng.randrange(0, nrec + 1), rng.pick(['zero', 'zero', 'ones', 'zts', 'magic', 'magic'])] for _ in range(rng.randint(1, 3))]
        scn['magic'] = [worlds.magic_record(rng).hex() for _ in range(3)]
    scn['cli'] = index % 16 == 0
    if rng.chance(0.2):
        # the SAME KdBufParser object parsed another v3 dump before, and that listing was abandoned somewhere (possibly
        # in the middle of its log records)
        scn['same_object_earlier'] = {'writer': worlds.gen_writer(rng, 3, threads, 3, logs=True), 'after': rng.randint(0, 12)}
        if rng.chance(0.25):
            # ... or read to its very end: the object then describes that earlier dump (its sections, its header) until the next
            scn['same_object_earlier'] = {'writer': worlds.gen_writer(rng, 3, threads, 3, logs=True), 'after': 10 ** 6, 'complete': True}
        elif rng.chance(0.4):
            scn['same_object_earlier'].update({'overlap': True, 'after': rng.randint(1, 2)})
            if rng.chance(0.5):
                scn['same_object_earlier']['turns'] = [rng.randrange(2) for _ in range(rng.randint(4, 40))]
        scn['api'] = 'kd'
    if nrec >= 2 and rng.chance(0.12):
        scn['align'] = rng.randint(1, 7)       # place a chunk boundary tag 1..7 bytes before a multiple of the I/O buffer size
        scn['cli'] = True
        if not w['chunks']:
            w['chunks'] = [nrec // 2]
    if w['blocks'] and rng.chance(0.25):
        # an earlier dump, parsed first by ANOTHER parser object in the same process, that shares some payloads with this one
        import copy
        ew = copy.deepcopy(w)
        rng.shuffle(ew['blocks'])
        ew['blocks'] = ew['blocks'][:rng.randint(1, len(ew['blocks']))] + [worlds._gen_block(rng, 'dyld'), worlds._gen_block(rng, 'kexts')]
        ew['chunks'] = []
        scn['earlier_writer'] = ew
    return scn


def _tables_model(w, apply_optional):
    tp, pn = worlds.tmap_model(w.get('tmap', []))
    strings = {}
    for b in w.get('blocks', []):
        if b['kind'] == 'strings':
            strings = {v: k for k, v in b['payload']['StringIndex'].items()}
    extended = 0
    nopid = 0
    for b in w.get('blocks', []):
        if b['kind'] != 'logs':
            continue
        for ev in b['payload']['Events']:
            if 'p' not in ev or not ev.get('tid'):
                continue
            name = strings.get(ev['p'])
            if not name:
                continue
            if 'pid' in ev:
                tp[ev['tid']] = ev['pid']
                pn[ev['pid']] = name
                extended += 1
            else:
                nopid += 1
                if apply_optional:
                    tp[ev['tid']] = 0
                    pn[0] = name
    return tp, pn, extended, nopid


def execute(scn):
    stats = {}

    def bump(k, v=1):
        stats[k] = stats.get(k, 0) + v
    table, stream = worlds.build_stream(scn)
    rb = [kernel.to_bytes(r) for r in stream]
    if scn.get('bulk_records'):
        import struct
        rb = rb[:3] + [struct.pack('<Q32sQIIQ', 1000 + i, bytes([1 + i % 255]) * 32, 1 + i % 7, 0x40c0004 | (i & 3), 0, 0) for i in range(scn['bulk_records'])] + rb[3:]
    for pos, kind in sorted(scn.get('special', []), reverse=True):
        blob = {'zero': bytes(64), 'ones': b'\xff' * 64}.get(kind) or (bytes(8) + bytes(range(1, 41)) + bytes(4) + bytes(range(50, 62)))
        if kind == 'magic' and scn.get('magic'):
            blob = bytes.fromhex(scn['magic'][pos % len(scn['magic'])])
        rb.insert(min(pos, len(rb)), blob)
        bump('probe:special_record')
    w = scn['writer']
    if scn.get('same_record_across_boundary'):
        # the record that ends a chunk and the record that begins the next one are the same 64 bytes (a call retried under a
        # clock that does not advance, a buffer flushed twice): two records, two events
        cs_ = sorted(set(c for c in w.get('chunks', []) if 0 < c < len(rb)))
        for c in cs_[:scn['same_record_across_boundary']]:
            rb[c] = rb[c - 1]
        if cs_:
            bump('probe:same_record_on_both_sides_of_chunk_boundary')
    data, layout = worlds.build_file(w, rb)
    if scn.get('align'):
        # lengthen the stackshot filler so that a MORE_EVENTS tag starts `align` bytes before a multiple of 4096 / 8192
        hdrs = [s_ for n_, s_, e_ in layout if n_ == 'chunkhdr'][1:]
        if hdrs:

            w = copy.deepcopy(w)
            pad = (-(hdrs[0] + scn['align'])) % 8192
            w['filler1'] = ('5a' * pad) + w.get('filler1', '')
            data, layout = worlds.build_file(w, rb)
            bump('probe:tag_straddles_buffer_boundary')
    blocks = w.get('blocks', [])
    kinds = [b['kind'] for b in blocks]
    cuts = sorted(min(max(c, 0), len(rb)) for c in w.get('chunks', []))
    nchunks = len(cuts) + 1
    if scn.get('large'):
        bump('probe:large_capture')
    if nchunks > 1:
        bump('probe:multi_chunk')
    bounds = [0] + cuts + [len(rb)]
    if any(bounds[i] == bounds[i + 1] for i in range(len(bounds) - 1)) and nchunks > 1:
        bump('probe:empty_chunk')
    for c in ([] if scn.get('special') else cuts):
        if 0 < c < len(stream):
            a, b = stream[c - 1], stream[c]
            if a['t'] == b['t'] and a['o'].rsplit('/', 1)[0] == b['o'].rsplit('/', 1)[0] and '/c' in b['o']:
                bump('probe:cut_inside_lookup')
            if b['q'] in (0, 2) or a['q'] == 1:
                bump('probe:cut_inside_window')
    f1 = bytes.fromhex(w.get('filler1', ''))
    if b'\x00\x1d\x00\x00\x00\x00\x00\x00' in f1 or b'\x00\x1e\x00\x00\x00\x00\x00\x00' in f1:
        bump('probe:decoy_tag_in_stackshot')
    if any(g for g in w.get('gaps', [])):
        bump('probe:gap_before_event_tag')
    from ..writer import STACKSHOT_END, TAG_THREADMAP, TAG_EVENTS
    for fill, tag in [(f1, STACKSHOT_END), (bytes.fromhex(w.get('filler2', '')), TAG_THREADMAP)] + [(bytes.fromhex(g), TAG_EVENTS) for g in w.get('gaps', [])]:
        if any(fill.endswith(tag[:k]) for k in range(1, len(tag))):
            bump('probe:partial_tag_prefix_before_tag')
            break
    hdr = next((e - s for n, s, e in layout if n == 'header'), 0)
    import plistlib
    if len(worlds.writer.plist_bytes(w.get('cpu_info') or {}, w.get('plist_fmt', 'binary'))) % 8:
        bump('probe:header_plist_unaligned')
    for kind, probe in (('kexts', 'two_kext_blocks'), ('dyld', 'two_dyld_blocks'), ('codes', 'two_code_blocks'), ('logs', 'two_log_blocks')):
        if kinds.count(kind) >= 2:
            bump('probe:' + probe)
    if blocks and not w.get('pad_last', True):
        bump('probe:unpadded_last_block')
    if 'strings' in kinds and 'logs' in kinds and kinds.index('strings') < kinds.index('logs'):
        bump('probe:strings_block_before_logs')
    if w.get('plist_fmt') == 'xml':
        bump('probe:xml_plists')
    if not blocks:
        bump('probe:no_blocks')
    if 'unknown' in kinds:
        bump('probe:unknown_block')
    if any(b['kind'] == 'codes' and b['text'] and not b['text'].endswith('\n') for b in blocks[:-1]):
        bump('probe:code_block_cut_mid_line')
    if w.get('padbyte') not in (None, '00') and any(len(worlds.block_payload(b, w.get('plist_fmt', 'binary'))) % 8 for b in blocks):
        bump('probe:block_padding_not_zero')
    if any(b.get('share') and b['kind'] == 'logs' and len(b['payload']['Events']) >= 2 for b in blocks) and w.get('plist_fmt', 'binary') == 'binary':
        bump('probe:log_blocks_share_stored_objects')
    viols = []
    hist = []

    def bad(tag, sig, detail):
        viols.append({'tag': tag, 'sig': sig, 'detail': detail})
    if scn.get('earlier_writer'):
        bump('probe:earlier_dump_other_parser_object')
        bump('fault:residue')
        edata, _ = worlds.build_file(scn['earlier_writer'], rb[:3])
        common.drain(lambda: tool.kdbuf_mod.KdBufParser({}, {}).parse(SimReader(edata)))
    tp, pn = {}, {}
    tables_after_kevents = None
    overlap = False
    attributes_judged = True
    if scn.get('api') == 'pk':
        pk = tool.pk_mod.PyKdebugParser()
        tp, pn = pk.threads_pids, pk.pids_names
        evs, exc = common.drain(lambda: pk.kevents(SimReader(data)))
        tables_after_kevents = (dict(tp), dict(pn))        # the event listing read the whole dump: logs extended the tables
        logs, exc2 = common.drain(lambda: pk.os_log_events(SimReader(data)))
        items = list(evs) + list(logs)
        exc = exc or exc2
        kd = None
    else:
        kd = tool.kdbuf_mod.KdBufParser(tp, pn)
        so = scn.get('same_object_earlier')
        if so:
            edata, _ = worlds.build_file(so['writer'], rb[:2])
            try:
                it = iter(kd.parse(SimReader(edata)))
                seen_logs = 0
                for _i in range(so.get('after', 0)):
                    x = next(it, None)
                    if x is None:
                        break
                    seen_logs += 1 if common.is_log(x) else 0
                if so.get('complete'):
                    bump('probe:same_object_read_an_earlier_dump_to_its_end')
                if seen_logs:
                    bump('probe:same_object_abandoned_in_logs')
                bump('fault:abandon')
                scn_hold = it
            except Exception:
                pass
        if so and so.get('overlap') and 'scn_hold' in locals():
            # both listings of the one object are under way at once: the judged one is created and pulled once, then the earlier
            # one is read to its end, then the judged one (whatever finishes last is what the object's attributes describe)
            bump('probe:two_listings_of_one_object_under_way')
            bump('fault:pending_request')
            overlap = True
            items, exc = [], None
            try:
                jit = iter(kd.parse(SimReader(data)))
                x = next(jit, None)
                if x is not None:
                    items.append(x)
                if so.get('turns'):
                    # ... read in turns, one item at a time, in a seeded order (each listing resolves through its own dump)
                    bump('probe:two_listings_read_in_turns')
                    turns = list(so['turns'])
                    done_j = x is None
                    done_e = False
                    early = False          # did the earlier listing end before the judged one reached its blocks?
                    while not done_j:
                        c = turns.pop(0) if turns else 0
                        if c and not done_e:
                            try:
                                if next(scn_hold, None) is None:
                                    done_e = True
                            except Exception:
                                done_e = True
                            if done_e:
                                early = not any(common.is_log(y) for y in items)
                        else:
                            x = next(jit, None)
                            if x is None:
                                done_j = True
                            else:
                                items.append(x)
                    # the attributes describe whichever listing read its blocks last: they are judged only when that is known to
                    # be the judged one (the earlier listing had ended before the judged one yielded its first log record)
                    attributes_judged = done_e and early
                else:
                    common.drain(scn_hold)
                    rest, exc = common.drain(jit)
                    items += rest
            except common.SimBudgetExceeded:
                raise
            except Exception as e:
                exc = e
        else:
            if scn.get('prefix'):
                # the dump sits behind a prefix in the stream, which is handed over positioned at the dump's first byte
                bump('probe:stream_positioned_behind_a_prefix')
                rd_ = SimReader(bytes(range(1, 1 + scn['prefix'])) + data)
                rd_.seek(scn['prefix'])
                items, exc = common.drain(lambda: kd.parse(rd_))
            else:
                items, exc = common.drain(lambda: kd.parse(SimReader(data)))
    has_tai = any('tai' in ev for b in blocks if b['kind'] == 'logs' for ev in b['payload']['Events'])
    if has_tai:
        bump('probe:log_with_tai')
    if exc is not None:
        bad('parse-raised', common.exc_sig(exc) + (':tai' if has_tai and isinstance(exc, TypeError) else ''),
            'complete v3 dump (%d records in %d chunks, blocks %r) raised %r after %d items' % (len(rb), nchunks, kinds, exc, len(items)))
    evs = [x for x in items if not common.is_log(x)]
    logs = [x for x in items if common.is_log(x)]
    want = [records.ref_decode(b) for b in rb]
    got = [common.ev_tuple(e) for e in evs]
    if got != want and (exc is None or len(got) > len(want) or got != want[:len(got)] or len(got) < len(want)):
        j = next((j for j in range(max(len(got), len(want))) if j >= len(got) or j >= len(want) or got[j] != want[j]), 0)
        kind = 'lost' if len(got) < len(want) else ('extra' if len(got) > len(want) else 'content')
        at_boundary = j in cuts
        bad('events-not-conserved', kind + (':chunk-boundary' if at_boundary else ''),
            '%d events for %d records in chunks %r; first difference at %d: got %r want %r' % (
                len(got), len(want), bounds, j, got[j] if j < len(got) else None, want[j] if j < len(want) else None))
    if scn.get('api') != 'pk':
        seen_log = False
        for x in items:
            if common.is_log(x):
                seen_log = True
            elif seen_log:
                bad('event-after-log', 'order', 'an event was yielded after a log record')
                break
    if exc is None:
        # logs
        strings = {}
        raw_logs = []
        for b in blocks:
            if b['kind'] == 'strings':
                strings = {v: k for k, v in b['payload']['StringIndex'].items()}
        for b in blocks:
            if b['kind'] == 'logs':
                raw_logs += b['payload']['Events']
        if len(logs) != len(raw_logs):
            bad('log-count', 'n', '%d logs yielded for %d log records in blocks %r' % (len(logs), len(raw_logs), kinds))
        else:
            for i, (lg, raw) in enumerate(zip(logs, raw_logs)):
                for key, field in STR_FIELDS.items():
                    wantv = strings.get(raw[key]) if key in raw else ''
                    if getattr(lg, field) != wantv:
                        bad('log-field', field, 'log %d: %s is %r, want %r' % (i, field, getattr(lg, field), wantv))
                        break
                if 'dm' in raw:
                    wantdm, open_ = worlds.dm_model(raw['dm'], strings)
                    gotdm = copy.deepcopy(lg.decomposed_message)
                    if open_ and isinstance(gotdm, dict):
                        bump('probe:log_argument_not_available')
                        for si in open_:
                            try:
                                gotdm['segments'][si]['arg'].pop('object_representation', None)
                            except (KeyError, IndexError, TypeError, AttributeError):
                                pass
                    if gotdm != wantdm:
                        bad('log-field', 'decomposed_message', 'log %d: decomposed message is %r, want %r' % (i, gotdm, wantdm))
                    if len(raw['dm'].get('seg', [])) >= 2:
                        bump('probe:log_message_several_segments')
                if lg.thread_identifier != raw['tid'] or lg.process_identifier != raw.get('pid', 0):
                    bad('log-field', 'ids', 'log %d: tid/pid %r/%r want %r/%r' % (i, lg.thread_identifier, lg.process_identifier, raw['tid'], raw.get('pid', 0)))
        # tables
        m1 = _tables_model(w, True)
        m0 = _tables_model(w, False)
        if m1[2]:
            bump('probe:log_extends_tables')
        if m1[3]:
            bump('probe:log_without_pid')
        if tables_after_kevents is not None and tables_after_kevents != (m1[0], m1[1]) and tables_after_kevents != (m0[0], m0[1]):
            tk, pk_ = tables_after_kevents
            d = {k: (tk.get(k), m1[0].get(k)) for k in set(tk) | set(m1[0]) if tk.get(k) != m1[0].get(k)}
            d2 = {k: (pk_.get(k), m1[1].get(k)) for k in set(pk_) | set(m1[1]) if pk_.get(k) != m1[1].get(k)}
            bad('tables', 'after-event-listing', 'after kevents() alone: tid->(got, want) %r; pid->(got, want) %r' % (d, d2))
        if overlap:
            pass          # the earlier listing's own logs extended the shared tables after the judged thread map was applied
        elif (tp, pn) != (m1[0], m1[1]) and (tp, pn) != (m0[0], m0[1]):
            d = {k: (tp.get(k), m1[0].get(k)) for k in set(tp) | set(m1[0]) if tp.get(k) != m1[0].get(k)}
            d2 = {k: (pn.get(k), m1[1].get(k)) for k in set(pn) | set(m1[1]) if pn.get(k) != m1[1].get(k)}
            bad('tables', 'threads' if d else 'names', 'tid->(got, want) %r; pid->(got, want) %r' % (d, d2))
        # attributes (container parser only)
        if kd is not None and attributes_judged:
            def payloads(kind):
                return [worlds.unjson(b['payload']) for b in blocks if b['kind'] == kind]
            for kind, attr in (('processes', 'processes'), ('images', 'images')):
                pl = payloads(kind)
                wantv = pl[-1] if pl else {}
                if getattr(kd, attr) != wantv:
                    bad('attribute', attr, '%s is %r, block payload %r' % (attr, getattr(kd, attr), wantv))
            wantk = [x for pl in payloads('kexts') for x in pl['Binaries']]
            if kd.kernel_extensions.get('Binaries') != wantk:
                bad('attribute', 'kernel_extensions', 'got %r want concatenation %r' % (kd.kernel_extensions, wantk))
            wantd = [x for pl in payloads('dyld') for x in pl['Binaries']]
            gotd = kd.dyld_modules.get('Binaries', []) if kd.dyld_modules else []
            if gotd != wantd:
                bad('attribute', 'dyld_modules', 'got %r want concatenation %r' % (kd.dyld_modules, wantd))
            wantc = ''.join(b['text'] for b in blocks if b['kind'] == 'codes')
            if kd.trace_codes != wantc:
                bad('attribute', 'trace_codes', 'got %r want %r' % (kd.trace_codes, wantc))
            if kd.v3_header is None or dict(kd.v3_header.cpu_info) != (w.get('cpu_info') or {}):
                bad('attribute', 'v3_header', 'cpu_info %r want %r' % (getattr(kd.v3_header, 'cpu_info', None), w.get('cpu_info')))
    # a share of runs also through the command-line interface (processes / kexts / images print the attributes as JSON)
    if scn.get('cli') and exc is None and not viols:
        import json
        import os
        import tempfile
        from click.testing import CliRunner
        from pykdebugparser.__main__ import cli
        bump('probe:cli_run')
        with tempfile.TemporaryDirectory() as td:
            path = os.path.join(td, 'dump')
            with open(path, 'wb') as f:
                f.write(data)
            for cmd, kind in (('processes', 'processes'), ('images', 'images'), ('kexts', 'kexts')):
                res = CliRunner().invoke(cli, [cmd, path])
                pls = [worlds.unjson(b['payload']) for b in blocks if b['kind'] == kind]
                if kind == 'kexts':
                    wantv = {'Binaries': [x for pl in pls for x in pl['Binaries']]}
                else:
                    wantv = pls[-1] if pls else {}
                try:
                    gotv = json.loads(res.output)
                except Exception:
                    gotv = ('unparsable', res.output[:100], repr(res.exception))
                if gotv != wantv:
                    bad('cli-attribute', cmd, 'CLI %s printed %r, the dump holds %r' % (cmd, gotv, wantv))
            with open(path, 'rb') as fobj:
                fitems, fexc = common.drain(lambda: tool.kdbuf_mod.KdBufParser({}, {}).parse(fobj))
            fgot = [common.ev_tuple(e) for e in fitems if not common.is_log(e)]
            if fexc is not None or fgot != want:
                bad('real-file-differs', 'events', 'parsed from a real buffered file: %d events (%r), from memory %d' % (len(fgot), fexc, len(want)))
            res = CliRunner().invoke(cli, ['kevents', path, '--no-show-tid'])
            nlines = len([l for l in res.output.split('\n') if l])
            if nlines != len(rb):
                bad('cli-kevents-lines', 'count', 'CLI kevents printed %d lines for %d records' % (nlines, len(rb)))
    hist.append([len(got), len(logs), type(exc).__name__ if exc else None, sorted(tp.items()), sorted((k, v) for k, v in pn.items())])
    nontrivial = nchunks >= 2 or any(kinds.count(k) >= 2 for k in ('kexts', 'dyld', 'codes', 'logs')) or _tables_model(w, True)[2] > 0
    return {'violations': viols[:4], 'digest': digest_of(scn, hist), 'stats': stats, 'nontrivial': bool(nontrivial),
            'shape': repr((nchunks, tuple(kinds))), 'extent': {'records_delivered': len(rb), 'file_bytes': len(data)}}
