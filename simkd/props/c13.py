"""C13 - trace filters commute with decoding and leave no residue in the parser (DESIGN.md 4.13).

Request-history machine: on ONE long-lived PyKdebugParser a seeded history of reconfigurations and
traces / formatted_traces / callstacks / kevents requests over simulated dumps holding BSD syscalls with lookups,
dyld ops with their strings, Mach/perf/turnstile records and several processes.  Judged: (i) filtered request ==
unfiltered reference run restricted by the filter, same order and text; (ii) the same request repeated gives the same
list; (iii) the caller's filter attributes are unchanged (value and type) afterwards and a following kevents listing
obeys them; (iv) callstacks repeated on the same object gives the same output."""
import copy

from .. import tool, worlds
from ..disk import SimReader
from ..runner import digest_of
from . import common
from .c12 import apply_filters, event_pred

ID = 'C13'
LEVEL = 'exploration'
RUNS = {'quick': 16000, 'thorough': 300000}
CHUNK = 40
PROBES = ['filters_given_as_sets', 'class_lists_edited_while_listing_pending', 'other_request_made_while_listing_half_read', 'bsd_call_named_in_another_bsd_subclass', 'request_that_fails_at_creation', 'lookup_crossing_call_start', 'capture_begins_and_ends_inside_announcement_pairs', 'trace_string_code_outside_trace_class', 'request_without_code_table_after_custom_one', 'crossing_classes_on_one_thread', 'process_named_like_a_number', 'empty_thread_map', 'process_of_thread_announced_in_stream', 'dump_cut_at_both_ends', 'class_filter_bsd', 'class_filter_non_bsd', 'bsd_subclass_filter', 'tid_filter', 'process_filter_name', 'process_filter_pid',
          'helper_trace_class_hidden', 'helper_fs_class_hidden', 'helper_class_requested', 'repeat_request', 'callstacks_repeat',
          'kevents_after_traces', 'tuple_filter', 'images_announced_after_sample', 'combined_filters']
RULE = ('one run = one long-lived PyKdebugParser and a history of 2..6 judged requests (traces, formatted_traces, callstacks, '
        'kevents) with reconfigurations in between over 1..2 simulated dumps, each judged against an unfiltered reference run '
        'on a fresh parser; non-trivial = >= 1 filtered trace request that keeps some but not all traces, or a repeated '
        'trace/callstack request; distinct = history digest')
SHAPE_MEASURE = 'distinct (filter kinds, request kind, keeps all/some/none, repeated?) tuples'
ASSUMPTIONS = ['subclass filters are BSD subclasses only (the statement says BSD-subclass)',
               'thread-map pids are disjoint from pids that programs announce, and sampler thread-info records repeat the map\'s '
               'pid, so that a class/tid filter cannot change which process a thread belongs to',
               'a judged request is created, exhausted and compared under one configuration',
               'no terminate-pid records in these dumps (self re-mapping is C14\'s subject)']
DBG_TRACE, DBG_FSYSTEM, DBG_BSD = 7, 3, 4
MOVED_ID = 0x2f00bef0
MOVED_BSD_ID = 0x040e0010


def _gen_filters(rng, dump):
    f = {}
    tids = [th['tid'] for th in dump['threads']]
    r = rng.random()
    if r < 0.3:
        f['cls'] = rng.pick([[4], [4], [1], [4, 1], [0x1f], [0x25], [4, 3], [7], [4, 7], [3], [1, 0x1f, 0x25], [0x35], [0x040c], [4, 0x040c]])
    elif r < 0.45:
        f['sub'] = rng.pick([[0x040c], [0x040c, 0x040e], [0x040e]])
    elif r < 0.55:
        f['cls'] = rng.pick([[1], [0x1f], [7]])
        f['sub'] = [0x040c]
    if dump.get('lookup_structures') and rng.chance(0.5):
        f['cls'] = rng.pick([[3], [4], [3, 4], [3, 7], [4, 1]])
        f.pop('sub', None)
        if rng.chance(0.3):
            f.pop('cls')
            f['sub'] = [0x040c]
    if dump.get('moved_trace') and rng.chance(0.4):
        f['cls'] = rng.pick([[MOVED_ID >> 24], [MOVED_ID >> 24, 4], [1, MOVED_ID >> 24]])
        f.pop('sub', None)
    elif dump.get('moved_bsd') and rng.chance(0.5):
        f.pop('cls', None)
        f['sub'] = rng.pick([[0x040e], [0x040e, 0x040c], [0x040e]])
    if rng.chance(0.35):
        f['tid'] = rng.pick(tids)
    if rng.chance(0.35):
        tm = dump['writer'].get('tmap', [])
        if dump.get('born') and rng.chance(0.5):
            # the process of the thread announced in-stream (never combined with a tid filter: the tid filter removes the
            # announcing thread's records before decoding, and whether "commute" survives that the statement leaves open)
            f['proc'] = dump['born'][2] if rng.chance(0.5) else str(dump['born'][1])
            f.pop('tid', None)
        elif tm:
            t = rng.pick(tm)
            f['proc'] = t[2] if rng.chance(0.5) else str(t[1])
            renamed = dump.get('renames') or []
            if renamed and rng.chance(0.4):
                f['proc'] = rng.pick(renamed)        # the name a process takes later in the capture (exec)
                f.pop('tid', None)                   # (a thread filter removes the announcing thread's records before decoding, as with 'born')
            if f['proc'].isdigit() and rng.chance(0.25):
                f['proc'] = rng.pick(['0' + f['proc'], '+' + f['proc'], ' ' + f['proc'], f['proc'] + ' '])    # int() accepts it; it is neither the name nor the pid text
            if 'tid' in f and (rng.chance(0.5) or dump.get('born')):
                f.pop('tid')
    f['show'] = [rng.chance(0.7) for _ in range(7)]     # column switches and colour: presentation only, never which traces come
    f['as_tuple'] = False    # traces() with tuple filters is exercised separately (probe tuple_filter)
    if rng.chance(0.1) and ('cls' in f or 'sub' in f):
        f['as_tuple'] = True
    elif rng.chance(0.06) and ('cls' in f or 'sub' in f):
        f['as_set'] = True
    return f


def _fix_samples(dump):
    """Sampler thread-info records repeat the pid the thread map gives their thread (see ASSUMPTIONS)."""
    tm = {t[0]: t[1] for t in dump['writer'].get('tmap', [])}
    # (the thread announced in-stream gets its process from that announcement only: the scheduler may run the thread before
    #  the announcement arrives, and a sampler record declaring it earlier would again be removed by a class filter)

    def walk(ops, tid):
        for op in ops:
            if op.get('k') == 'one' and op.get('name') == 'PERF_THD_Data':
                if tid in tm:
                    op['a'][0] = tm[tid]
                    op['a'][1] = tid
                else:
                    # a thread the dump never declares stays undeclared: no sampler record may declare it either
                    op['name'] = 'MACH_MKRUNNABLE'
            for key in ('in', 'ops'):
                if key in op:
                    walk(op[key], tid)
    def strip(ops):
        # records that re-map the emitting thread itself (terminate-pid) are left to C14: together with a sampler record
        # that a class filter removes they would make "which process" depend on the filter, which the statement leaves open
        out = []
        for op in ops:
            if op.get('k') == 'one' and op.get('name') == 'TRACE_DATA_THREAD_TERMINATE_PID':
                continue
            for key in ('in', 'ops'):
                if key in op:
                    op[key] = strip(op[key])
            if 'between' in op:
                op['between'] = {k_: strip(v_) for k_, v_ in op['between'].items()}
            out.append(op)
        return out
    for th in dump['threads']:
        th['ops'] = strip(th['ops'])
        walk(th['ops'], th['tid'])


def generate(rng, index, tier):
    dumps = []
    if index % 601 == 19:
        # one call that takes very long: more than ten thousand records of other classes on its thread before it returns
        n = [4200, 10100, 17000][(index // 601) % 3]
        d = worlds.gen_dump(rng, version=2, nthreads=1, mix={'bsd': 1}, declare_all=True, logs=False)
        d['threads'][0]['ops'] = [worlds.op_long_window(rng, 'BSC_read', n)] + d['threads'][0]['ops'][:2]
        d['schedule'] = []
        return {'dumps': [d], 'history': [{'op': 'request', 'dump': 0, 'what': 'traces', 'repeat': False},
                                          {'op': 'set', 'filters': {'cls': [4], 'as_tuple': False}},
                                          {'op': 'request', 'dump': 0, 'what': 'traces', 'repeat': True},
                                          {'op': 'set', 'filters': {'sub': [0x40c], 'tid': d['threads'][0]['tid'], 'as_tuple': False}},
                                          {'op': 'request', 'dump': 0, 'what': 'traces', 'repeat': False}], 'long': n}
    for _dn in range(rng.randint(1, 2)):
        d = worlds.gen_dump(rng, version=rng.pick([2, 2, 3]), nthreads=rng.randint(1, 3),
                            mix={'bsd': 3, 'path': 4, 'mach': 2, 'tracedom': 2, 'perf': 2, 'dyld': 3, 'turnstile': 1, 'lookup': 1,
                                 'gstr': 1}, declare_all=True, logs=False)
        # image announcements after (and before) samples, so that a surviving image list would show on a repeat
        if rng.chance(0.6):
            th = rng.pick(d['threads'])
            base = rng.randrange(1, 1 << 30) << 12
            th['ops'].append(worlds.op_sample(rng, thd=None, uhdr=(1, 3), udata=[[base + 5, base + 0x2000, 3, 4]]))
            th['ops'].append(worlds.op_imap(rng, worlds.draw_uuid(rng), base))
            d['late_image'] = True
        # operations of different classes that overlap without nesting on one thread (START mach, START bsd, END mach, END bsd)
        if rng.chance(0.3):
            th = rng.pick(d['threads'])
            for _c in range(rng.randint(1, 2)):
                th['ops'].insert(rng.randrange(len(th['ops']) + 1), worlds.op_crossing(rng, None, rng.pick(['MSC_mach_vm_allocate_trap', 'MACH_vmfault', 'MSC_mach_reply_port', 'DBG_DYLD_TIMING_DLCLOSE']), rng.pick(['BSC_read', 'BSC_getpid', 'BSC_sys_close', 'BSC_write'])))
            d['crossing'] = True
        # a thread born during the capture: not in the thread map, announced in-stream by another thread
        if len(d['threads']) >= 2 and rng.chance(0.4):
            born = d['threads'][-1]
            d['writer']['tmap'] = [t for t in d['writer']['tmap'] if t[0] != born['tid']]
            pid = 51000 + rng.randrange(50)
            name = rng.ident(3, 9)
            d['threads'][0]['ops'].insert(0, worlds.op_newthread(rng, born['tid'], pid, name))
            d['born'] = [born['tid'], pid, name]
        if d.get('born') and rng.chance(0.35):
            d['writer']['tmap'] = []          # a dump without any thread map: everything is learned in-stream
        # a dump cut at both ends: orphan ENDs at the start, unfinished STARTs at the end, lost records
        # (not together with a thread announced in-stream: losing the announcement would leave a sampler record that a class
        #  filter removes as the only declaration of that thread, and the filtered and unfiltered runs then differ by design)
        if not d.get('born') and rng.chance(0.4):
            nrec = sum(len(x) for x in worlds.kernel.expand_threads(d['threads'], worlds.catalog()['ids']))
            fl = []
            for _f in range(rng.randint(1, 3)):
                k = rng.pick(['wrap', 'drop', 'kill', 'tail'])
                if k == 'wrap':
                    fl.append({'k': 'wrap', 'n': rng.randint(1, max(1, nrec // 3))})
                elif k == 'drop':
                    fl.append({'k': 'drop', 'at': rng.randrange(max(1, nrec))})
                elif k == 'kill':
                    fl.append({'k': 'kill', 'th': rng.randrange(len(d['threads'])), 'after': rng.randint(1, 8)})
                else:
                    fl.append({'k': 'tail', 'n': rng.randint(1, max(1, nrec // 3))})
            d['faults'] = fl
        if rng.chance(0.12):
            # the capture begins with the second half of one announcement pair and ends with the first half of another, both by
            # the same thread (their other halves are outside the capture); the pid announced last belongs to a mapped process
            th = rng.pick(d['threads'])
            others = [t for t in d['writer'].get('tmap', []) if t[0] != th['tid']]
            pid = rng.pick(others)[1] if others else 52000 + rng.randrange(50)
            kind = rng.pick(['NEWTHREAD', 'EXEC'])
            th['ops'].insert(0, worlds.kernel.text_one('TRACE_STRING_' + kind, rng.ident(3, 9)))
            th['ops'].append({'k': 'one', 'name': 'TRACE_DATA_' + kind, 'q': 0,
                              'a': [990000 + rng.randrange(99), pid, 0, rng.word()] if kind == 'NEWTHREAD' else [pid, rng.word(), rng.word(), 0]})
            d['orphan_halves'] = True
        if rng.chance(0.15):
            # a path lookup that begins before the call it belongs to and ends inside it (the call's START is logged between the
            # lookup's chunks), and a lookup on its own with an unrelated record of another class between its chunks
            th = rng.pick(d['threads'])
            ids_ = worlds.catalog()['ids']
            name = rng.pick(['BSC_open', 'BSC_stat64', 'BSC_access', 'BSC_lstat64'])
            s_, e_ = worlds.domains.draw(rng, name)
            lk = worlds.op_lookup(rng, rng.pick([30, 60, 100]))
            lk['between'] = {'0': [{'k': 'sys', 'name': name, 's': s_, 'e': e_, 'in': [], 'noend': True}]}
            at = rng.randrange(len(th['ops']) + 1)
            th['ops'][at:at] = [lk, {'k': 'raw', 'id': ids_[name], 'q': 2, 'a': list(e_)}]
            lk2 = worlds.op_lookup(rng, rng.pick([30, 60, 100]))
            lk2['between'] = {'0': [{'k': 'one', 'name': 'MACH_MKRUNNABLE', 'q': 0, 'a': [rng.randrange(1, 120), rng.randrange(1, 120), 0, 0]}]}
            th['ops'].insert(rng.randrange(len(th['ops']) + 1), lk2)
            # ... and one with a complete BSD call of the thread between its chunks (a signal handler's getpid, say)
            lk3 = worlds.op_lookup(rng, rng.pick([30, 60, 100]))
            sg_, eg_ = worlds.domains.draw(rng, 'BSC_getpid')
            lk3['between'] = {'0': [{'k': 'sys', 'name': 'BSC_getpid', 's': sg_, 'e': eg_, 'in': []}]}
            th['ops'].insert(rng.randrange(len(th['ops']) + 1), lk3)
            d['lookup_structures'] = True
        if rng.chance(0.15):
            # a record of a code that only the caller's own table names - as a kernel trace string, outside the trace class
            th = rng.pick(d['threads'])
            th['ops'].insert(rng.randrange(len(th['ops']) + 1), {'k': 'raw', 'id': MOVED_ID, 'q': 0, 'a': worlds.kernel.records.text_words(rng.ident(3, 9).encode(), 4)})
            d['moved_trace'] = True
            if rng.chance(0.6):
                s_, e_ = worlds.domains.draw(rng, 'BSC_stat64')
                th.setdefault('ops', []).insert(rng.randrange(len(th['ops']) + 1), {'k': 'seq', 'ops': [
                    {'k': 'raw', 'id': MOVED_BSD_ID, 'q': 1, 'a': list(s_)}, worlds.op_lookup(rng, rng.pick([10, 40])),
                    {'k': 'raw', 'id': MOVED_BSD_ID, 'q': 2, 'a': list(e_)}]})
                d['moved_bsd'] = True
        if d['writer'].get('tmap') and rng.chance(0.2):
            # a process of the thread map execs in the middle of a call of one of its threads: START, the exec announcement with
            # the new name, END - the call belongs to the process under its new name from the announcement on
            th = rng.pick(d['threads'])
            ent = [t for t in d['writer']['tmap'] if t[0] == th['tid']]
            if ent:
                newname = rng.ident(3, 9)
                s_, e_ = worlds.domains.draw(rng, 'BSC_read')
                th['ops'].insert(rng.randrange(len(th['ops']) + 1), {'k': 'sys', 'name': 'BSC_read', 's': s_, 'e': e_, 'in': [worlds.op_exec(rng, ent[0][1], newname)]})
                d.setdefault('renames', []).append(newname)
        if rng.chance(0.2):
            old = d['threads'][0]['tid']
            d['threads'][0]['tid'] = 0          # thread id 0
            for t in d['writer'].get('tmap', []):
                if t[0] == old:
                    t[0] = 0
        _fix_samples(d)
        dumps.append(d)
    hist = []
    for _ in range(rng.randint(2, 6)):
        r = rng.random()
        di = rng.randrange(len(dumps))
        if r < 0.25:
            hist.append({'op': 'set', 'filters': _gen_filters(rng, dumps[di])})
        elif r < 0.265:
            hist.append({'op': 'request_edit', 'dump': di, 'how': rng.pick(['append', 'clear', 'rebind']), 'which': rng.pick(['cls', 'sub']),
                         'value': rng.pick([4, 1, 7, 3, 0x1f])})
            if hist[-1]['which'] == 'sub':
                hist[-1]['value'] = rng.pick([0x040c, 0x040e])
        elif r < 0.28:
            hist.append({'op': 'bad_request', 'how': rng.pick(['empty', 'short', 'unknown', 'closed']), 'what': rng.pick(['traces', 'traces', 'formatted_traces', 'callstacks', 'kevents'])})
        elif r < 0.3:
            hist.append({'op': 'mutate', 'how': rng.pick(['append', 'remove']), 'value': rng.pick([4, 1, 0x1f, 7, 3])})
            if rng.chance(0.3):
                hist[-1].update({'which': 'sub', 'value': rng.pick([0x040c, 0x0401, 0x0103])})
        elif r < 0.7:
            hist.append({'op': 'request', 'dump': di, 'what': rng.pick(['traces', 'traces', 'formatted_traces']), 'repeat': rng.chance(0.5),
                         'meanwhile': {'after': rng.randint(1, 6), 'what': rng.pick(['traces', 'formatted_traces', 'callstacks', 'kevents']), 'dump': rng.randrange(len(dumps))} if rng.chance(0.15) else None,
                         'codes': rng.pick(['arg', 'arg', 'arg', 'none', 'other'] if not dumps[di].get('moved_trace') else ['other', 'other', 'arg'])})
        elif r < 0.85:
            hist.append({'op': 'request', 'dump': di, 'what': 'callstacks', 'repeat': rng.chance(0.7)})
        else:
            hist.append({'op': 'request', 'dump': di, 'what': 'kevents', 'repeat': False})
    if not any(h['op'] == 'request' and h['what'] != 'kevents' for h in hist):
        hist.append({'op': 'request', 'dump': 0, 'what': 'traces', 'repeat': True})
    return {'dumps': dumps, 'history': hist, 'earlier_other': rng.chance(0.12)}


def valid(scn):
    """Premises the generator guarantees (ASSUMPTIONS) and minimisation must keep: every sampler thread-info record names
    its own thread with the pid the thread map (or the in-stream announcement) gives it; an in-stream announced thread keeps
    its announcement and is never combined with lost records; requests refer to existing dumps."""
    try:
        for h in scn['history']:
            if h['op'] == 'request' and not 0 <= h['dump'] < len(scn['dumps']):
                return False
        for d in scn['dumps']:
            tm = {t[0]: t[1] for t in d['writer'].get('tmap', [])}
            if d.get('born'):
                if d.get('faults'):
                    return False
                ops0 = d['threads'][0]['ops'] if d['threads'] else []
                if not ops0 or ops0[0].get('k') != 'seq' or len(ops0[0]['ops']) != 2 or ops0[0]['ops'][0].get('a', [None])[0] != d['born'][0]:
                    return False
                if ops0[0]['ops'][0].get('name') != 'TRACE_DATA_NEWTHREAD' or ops0[0]['ops'][1].get('name') != 'TRACE_STRING_NEWTHREAD':
                    return False
                if not any(th['tid'] == d['born'][0] for th in d['threads']):
                    return False
            bad = []

            def walk(ops, tid):
                for op in ops:
                    if op.get('k') == 'one' and op.get('name') == 'PERF_THD_Data':
                        if op['a'][1] != tid or tm.get(tid) != op['a'][0]:
                            bad.append(op)
                    if op.get('k') == 'one' and op.get('name') == 'TRACE_DATA_THREAD_TERMINATE_PID':
                        bad.append(op)
                    for key in ('in', 'ops'):
                        if key in op:
                            walk(op[key], tid)
                    for v_ in (op.get('between') or {}).values():
                        walk(v_, tid)
            for th in d['threads']:
                walk(th['ops'], th['tid'])
            if bad:
                return False
    except (KeyError, IndexError, TypeError):
        return False
    return True


def _first(t):
    return t.ktraces[0]


def trace_pred(f):
    cls, sub = f.get('cls') or [], f.get('sub') or []

    def pred(t, proc):
        e = _first(t)
        if f.get('tid') is not None and e.tid != f['tid']:
            return False
        if cls or sub:
            if not ((e.eventid >> 24) in cls or (e.eventid >> 16) in sub):
                return False
        if f.get('proc') is not None and f['proc'] not in proc:
            return False
        return True
    return pred


def _cs_repr(c):
    return [c.timestamp, c.tid, [[fr.address, str(fr.uuid), fr.offset] for fr in c.frames]]


def execute(scn):
    stats = {}

    def bump(k, v=1):
        stats[k] = stats.get(k, 0) + v
    files = []
    tables = []
    filter_sensitive = []
    rename_sensitive = []
    for d in scn['dumps']:
        data, _stream, table = worlds.dump_bytes(d)
        files.append(data)
        tables.append(table)
        # premise guard, evaluated on the stream itself (whatever the generator did): does a record that a class filter removes
        # (a sampler thread-info record) or that re-maps its own thread (terminate-pid) change which process a thread belongs to?
        tp_, _pn = worlds.tmap_model(d['writer'].get('tmap', []))
        sens = False
        map_pids = {t[1] for t in d['writer'].get('tmap', [])}
        # an announcement that (re)names a process of the thread map: a thread filter that removes the announcing thread's records
        # before decoding then changes what the process is called - by design, so thread + process filters are not judged there
        rename_sensitive.append(any(table.get(r['id']) in ('TRACE_DATA_EXEC', 'TRACE_DATA_NEWTHREAD') and
                                    r['a'][0 if table.get(r['id']) == 'TRACE_DATA_EXEC' else 1] in map_pids for r in _stream))
        for r in _stream:
            nm = table.get(r['id'])
            if r['q'] in (0, 3):
                if nm == 'TRACE_DATA_NEWTHREAD':
                    tp_[r['a'][0]] = r['a'][1]
                elif nm == 'TRACE_DATA_THREAD_TERMINATE_PID':
                    sens = sens or tp_.get(r['t']) != r['a'][0]
                    tp_[r['t']] = r['a'][0]
                elif nm == 'PERF_THD_Data':
                    sens = sens or tp_.get(r['a'][1]) != r['a'][0]
                    tp_[r['a'][1]] = r['a'][0]
        filter_sensitive.append(sens)
    refs = {}
    viols = []

    def check_newborn(after):
        # an object nobody configured has no filter, whatever other objects were told (its settings are its own)
        nb = tool.pk_mod.PyKdebugParser()
        if nb.filter_tid is not None or nb.filter_process is not None or nb.filter_class or nb.filter_subclass:
            if not any(v['tag'] == 'new-object-born-filtered' for v in viols):
                viols.append({'tag': 'new-object-born-filtered', 'sig': 'after',
                              'detail': 'after %s a newly created PyKdebugParser has (tid, process, class, subclass) = %r' % (
                                  after, (nb.filter_tid, nb.filter_process, nb.filter_class, nb.filter_subclass))})

    def ref_traces(di, tref=None):
        """Unfiltered reference run on a fresh parser, with the tool's own process attribution snapshotted per trace."""
        tref = tables[di] if tref is None else tref
        key = (di, id(tref) if tref is not tables[di] else 0, 'b' if tref == tool.codes() and tref is not tables[di] else '')
        if key not in refs:
            rp = tool.pk_mod.PyKdebugParser()
            out = []
            exc = None
            try:
                for t in rp.traces(SimReader(files[di]), tref):
                    tid = _first(t).tid
                    pid = rp.threads_pids.get(tid, -1)
                    out.append((t, str(t), (str(pid), rp.pids_names.get(pid, ''))))
            except Exception as e:
                exc = e
            refs[key] = (out, exc)
        return refs[key]
    if scn.get('earlier_other'):
        for di_, d_ in enumerate(scn['dumps']):
            common.pollute_other_objects(tables[di_], worlds.dump_bytes(d_)[1], files[di_])
        bump('fault:residue')
        bump('earlier_other_objects')
    p = tool.pk_mod.PyKdebugParser()
    cur = {}
    hist = []
    held_ = []
    own = {}
    shapes = set()
    nontrivial = False
    custom_seen = [False]
    other_tables = {}

    def codes_for(h, di):
        """(table argument to pass, table the reference run uses): explicit, omitted (= the bundled one), or another table
        in which one decodable name lives under a different id (so that a table remembered from an earlier request shows)."""
        mode = h.get('codes', 'arg')
        if tables[di] != tool.codes():
            mode = 'arg'
        if mode == 'none':
            if custom_seen[0]:
                bump('probe:request_without_code_table_after_custom_one')
            return None, tool.codes()
        if mode == 'other':
            if di not in other_tables:
                # (the caller takes the table the library hands out and edits THAT object in place: it is the caller's own)
                t2 = tool.tc_mod.default_trace_codes() if tables[di] == tool.codes() else dict(tables[di])
                t2.pop(worlds.catalog()['ids']['BSC_getpid'], None)
                t2[0x2f00beec] = 'BSC_getpid'
                t2[MOVED_ID] = 'TRACE_STRING_PROC_EXIT'
                t2[MOVED_BSD_ID] = 'BSC_stat64'        # a path-taking call named by the caller's table in another BSD subclass
                other_tables[di] = t2
            custom_seen[0] = True
            return other_tables[di], other_tables[di]
        return tables[di], tables[di]
    for h in scn['history']:
        if h['op'] == 'mutate':
            # the caller edits its own class list in place between requests
            # (also the lists the object was born with: they belong to this object alone)
            # (through the caller's OWN reference to the list it assigned - or, before any assignment, the list the object was born with)
            lst = own.get('sub', p.filter_subclass) if h.get('which') == 'sub' else own.get('cls', p.filter_class)
            if isinstance(lst, list) and isinstance(own.get('cls', p.filter_class), list) and isinstance(own.get('sub', p.filter_subclass), list):
                if h['how'] == 'append':
                    lst.append(h['value'])
                elif lst:
                    lst.pop(0)
                cur = dict(cur)
                cur['cls'] = list(own.get('cls', p.filter_class))
                cur['sub'] = list(own.get('sub', p.filter_subclass))
                cur['as_tuple'] = False
                check_newborn('in-place edit of the long-lived object\'s list')
                bump('fault:reconfigure')
                bump('filter_list_edited_in_place')
            continue
        if h['op'] == 'bad_request':
            # a request that cannot even start (empty / unknown / closed stream): it raises, and leaves the object as it was
            before = (copy.deepcopy(p.filter_tid), copy.deepcopy(p.filter_process), copy.deepcopy(p.filter_class), copy.deepcopy(p.filter_subclass))
            rd = SimReader({'empty': b'', 'short': b'\x00\x02', 'unknown': b'\x11\x22\x33\x44' + bytes(64)}.get(h['how'], b''))
            if h['how'] == 'closed':
                rd.close()
            try:
                g = getattr(p, h.get('what', 'traces'))(rd)
                for _x in g:
                    pass
            except Exception:
                pass
            bump('probe:request_that_fails_at_creation')
            bump('fault:failed_request')
            now = (p.filter_tid, p.filter_process, p.filter_class, p.filter_subclass)
            if now != before or [type(x) for x in now] != [type(x) for x in before]:
                viols.append({'tag': 'filter-settings-changed', 'sig': 'failed-request',
                              'detail': 'caller set (tid, process, class, subclass) = %r, after a request on an unreadable stream they are %r' % (before, now)})
            hist.append(['bad_request', h['how']])
            continue
        if h['op'] == 'request_edit':
            # the class / subclass lists are edited (in place or by assigning new ones) between making a listing and reading it.
            # Which instant's lists the listing follows is left open; it follows ONE of them, as a whole
            di = h['dump'] % len(files)
            targ, tref = tables[di], tables[di]
            ref, rexc = ref_traces(di, tref)
            if rexc is not None or (cur.get('proc') is not None and (filter_sensitive[di] or (cur.get('tid') is not None and rename_sensitive[di]))):
                hist.append(['request_edit', 'skipped'])
                continue
            if not (isinstance(p.filter_class, list) and isinstance(p.filter_subclass, list)):
                hist.append(['request_edit', 'skipped-tuple'])
                continue
            bump('probe:class_lists_edited_while_listing_pending')
            bump('fault:reconfigure')
            old_cur = dict(cur, cls=list(cur.get('cls') or []), sub=list(cur.get('sub') or []))
            try:
                g_ = p.traces(SimReader(files[di]), targ)
                lst = own.get('sub', p.filter_subclass) if h.get('which') == 'sub' else own.get('cls', p.filter_class)
                if h['how'] == 'append':
                    lst.append(h['value'])
                elif h['how'] == 'clear':
                    del lst[:]
                else:
                    if h.get('which') == 'sub':
                        p.filter_subclass = [h['value']]
                    else:
                        p.filter_class = [h['value']]
                    own['cls'], own['sub'] = p.filter_class, p.filter_subclass      # (the caller's references are the new objects)
                items, exc = common.drain(g_)
            except Exception as e:
                items, exc = [], e
            cur = dict(cur, cls=list(p.filter_class), sub=list(p.filter_subclass), as_tuple=False)
            if exc is not None:
                viols.append({'tag': 'filtered-request-raised', 'sig': common.exc_sig(exc), 'detail': 'lists edited while the listing was pending: %r' % exc})
                continue
            got = [str(t) for t in items]
            wants = []
            for c_ in (old_cur, cur):
                pr_ = trace_pred(c_)
                wants.append([s_ for (t_, s_, proc_) in ref if pr_(t_, proc_)])
            if got not in wants:
                viols.append({'tag': 'filtered-traces-differ', 'sig': 'lists-edited-while-pending',
                              'detail': 'lists %r -> %r between making and reading the listing: %d traces; with the earlier lists %d, with the later %d (of %d)' % (
                                  (old_cur.get('cls'), old_cur.get('sub')), (cur.get('cls'), cur.get('sub')), len(got), len(wants[0]), len(wants[1]), len(ref))})
            hist.append(['request_edit', len(got), len(wants[0]), len(wants[1])])
            continue
        if h['op'] == 'set':
            cur = h['filters']
            apply_filters(p, cur)
            if cur.get('as_set') and not cur.get('as_tuple'):
                # any collection of numbers will do as a class / subclass filter: here sets
                p.filter_class, p.filter_subclass = set(cur.get('cls') or []), frozenset(cur.get('sub') or [])
                bump('probe:filters_given_as_sets')
            own['cls'], own['sub'] = p.filter_class, p.filter_subclass        # the caller keeps the very objects it assigned
            for sw, v in zip(('show_timestamp', 'show_name', 'show_func_qual', 'show_tid', 'show_process', 'show_args'), cur.get('show', [])):
                setattr(p, sw, v)
            bump('fault:reconfigure')
            continue
        di = h['dump'] % len(files)
        what = h['what']
        set_values = (copy.deepcopy(p.filter_tid), copy.deepcopy(p.filter_process), copy.deepcopy(p.filter_class),
                      copy.deepcopy(p.filter_subclass))
        cls, sub = cur.get('cls') or [], cur.get('sub') or []
        if what in ('traces', 'formatted_traces'):
            targ, tref = codes_for(h, di)
            ref, rexc = ref_traces(di, tref)
            if rexc is not None:
                hist.append([what, 'ref-raised', type(rexc).__name__])
                continue
            if cur.get('tid') is not None and cur.get('proc') is not None and (rename_sensitive[di] or cur.get('proc') in (scn['dumps'][di].get('renames') or [])):
                # (the thread filter removes the renaming thread's announcement before decoding: by design, not judged)
                bump('premise_skipped')
                hist.append([what, 'premise-skipped'])
                continue
            if cur.get('proc') is not None and (cls or sub or cur.get('tid') is not None) and filter_sensitive[di]:
                # in this dump a class/thread filter changes which process a thread belongs to; whether the process filter should
                # then follow the filtered or the unfiltered attribution the statement leaves open: not judged
                bump('premise_skipped')
                hist.append([what, 'premise-skipped'])
                continue
            def judged_listing(make):
                if not h.get('meanwhile'):
                    return common.drain(make)
                # part of the listing is read, then ANOTHER request is made on the same object (made, not read: requests are
                # lazy), then the rest of the listing is read
                bump('probe:other_request_made_while_listing_half_read')
                bump('fault:interleaved_request')
                mw = h['meanwhile']
                got_, exc_ = [], None
                try:
                    it_ = iter(make())
                    for _k in range(mw.get('after', 1)):
                        x_ = next(it_, None)
                        if x_ is None:
                            break
                        got_.append(x_)
                    fn_ = {'traces': lambda rd: p.traces(rd, targ), 'formatted_traces': lambda rd: p.formatted_traces(rd, targ),
                           'callstacks': lambda rd: p.callstacks(rd, tables[di]), 'kevents': lambda rd: p.kevents(rd)}[mw['what']]
                    held_.append(fn_(SimReader(files[mw['dump'] % len(files)])))
                    rest_, exc_ = common.drain(it_)
                    got_ += rest_
                except common.SimBudgetExceeded:
                    raise
                except Exception as e_:
                    exc_ = e_
                return got_, exc_
            if what == 'traces':
                items, exc = judged_listing(lambda: p.traces(SimReader(files[di]), targ))
                got = [str(t) for t in items] if exc is None else None
            else:
                p.color = False
                items, exc = judged_listing(lambda: p.formatted_traces(SimReader(files[di]), targ))
                got = items
            if cur.get('as_tuple'):
                bump('probe:tuple_filter')
            if exc is not None:
                viols.append({'tag': 'filtered-request-raised', 'sig': common.exc_sig(exc),
                              'detail': '%s with filters %r raised %r (the unfiltered run does not)' % (what, cur, exc)})
                hist.append([what, 'raised', type(exc).__name__])
                continue
            pred = trace_pred(cur)
            want_traces = [(t, s, proc) for (t, s, proc) in ref if pred(t, proc)]
            if what == 'traces':
                want = [s for (_t, s, _p) in want_traces]
            else:
                # the formatted line ends with the rendered trace text; compare that part plus count
                want = [s for (_t, s, _p) in want_traces]
                got = [g[-len(w):] if w else g for g, w in zip(got, want)] + got[len(want):]
            if 4 in cls:
                bump('probe:class_filter_bsd')
            elif cls:
                bump('probe:class_filter_non_bsd')
            if sub:
                bump('probe:bsd_subclass_filter')
            if cur.get('tid') is not None:
                bump('probe:tid_filter')
            if cur.get('proc') is not None:
                bump('probe:process_filter_pid' if cur['proc'].isdigit() else 'probe:process_filter_name')
                born = scn['dumps'][di].get('born')
                if born and cur['proc'] in (born[2], str(born[1])) and (cls or sub):
                    bump('probe:process_of_thread_announced_in_stream')
            if scn['dumps'][di].get('faults'):
                bump('probe:dump_cut_at_both_ends')
            if scn['dumps'][di].get('moved_bsd') and tref.get(MOVED_BSD_ID) and 0x040e in sub:
                bump('probe:bsd_call_named_in_another_bsd_subclass')
            if scn['dumps'][di].get('lookup_structures') and (cls or sub):
                bump('probe:lookup_crossing_call_start')
            if scn['dumps'][di].get('orphan_halves'):
                bump('probe:capture_begins_and_ends_inside_announcement_pairs')
            if tref.get(MOVED_ID) and any(_first(t).eventid == MOVED_ID for t, _s, _p in ref) and (MOVED_ID >> 24) in cls:
                bump('probe:trace_string_code_outside_trace_class')
            if not scn['dumps'][di]['writer'].get('tmap'):
                bump('probe:empty_thread_map')
            if scn['dumps'][di].get('crossing') and (cls or sub):
                bump('probe:crossing_classes_on_one_thread')
            if any(t[2].isdigit() for t in scn['dumps'][di]['writer'].get('tmap', [])) and cur.get('proc') is not None:
                bump('probe:process_named_like_a_number')
            if sum(1 for k in ('tid', 'proc') if cur.get(k) is not None) + (1 if cls or sub else 0) >= 2:
                bump('probe:combined_filters')
            if (cls or sub) and 7 not in cls and any(_first(t).eventid >> 24 == 7 for t, _s, _p in ref):
                bump('probe:helper_trace_class_hidden')
            if (cls or sub) and 3 not in cls and (4 in cls or sub) and any(_first(t).eventid >> 24 == 3 for t, _s, _p in ref):
                bump('probe:helper_fs_class_hidden')
            if 7 in cls or 3 in cls:
                bump('probe:helper_class_requested')
            keeps = 'all' if len(want) == len(ref) else ('none' if not want else 'some')
            shapes.add((tuple(sorted(k for k in cur if cur.get(k) not in (None, [], False))), what, keeps, bool(h.get('repeat'))))
            if keeps == 'some':
                nontrivial = True
            if got != want:
                j = next((j for j in range(max(len(got), len(want))) if j >= len(got) or j >= len(want) or got[j] != want[j]), 0)
                kind = 'extra' if len(got) > len(want) else ('missing' if len(got) < len(want) else 'text')
                gcls = None
                if kind == 'extra' and j < len(got):
                    gcls = 'helper' if any(s == got[j] and _first(t).eventid >> 24 in (3, 7) for t, s, _p in ref) else 'other'
                viols.append({'tag': 'filtered-traces-differ', 'sig': '%s:%s%s' % (what, kind, ':' + gcls if gcls else ''),
                              'detail': 'filters %r: %d traces, want %d of %d; first difference at %d: got %r want %r' % (
                                  cur, len(got), len(want), len(ref), j, got[j] if j < len(got) else None, want[j] if j < len(want) else None)})
            if h.get('repeat') and exc is None:
                bump('probe:repeat_request')
                bump('fault:repeat')
                nontrivial = True
                if what == 'traces':
                    items2, exc2 = common.drain(lambda: p.traces(SimReader(files[di]), targ))
                    got2 = [str(t) for t in items2] if exc2 is None else None
                    first = [str(t) for t in items]
                else:
                    items2, exc2 = common.drain(lambda: p.formatted_traces(SimReader(files[di]), targ))
                    got2 = items2
                    first = items
                if exc2 is not None or got2 != first:
                    viols.append({'tag': 'repeat-differs', 'sig': what,
                                  'detail': 'filters %r: first call %d traces, identical second call %s' % (
                                      cur, len(first), ('raised %r' % exc2) if exc2 else '%d traces' % len(got2))})
            hist.append([what, len(got or []), len(want)])
        elif what == 'callstacks':
            bump('probe:callstacks_repeat')
            if scn['dumps'][di].get('late_image'):
                bump('probe:images_announced_after_sample')
            items, exc = common.drain(lambda: p.callstacks(SimReader(files[di]), tables[di]))
            if exc is None:
                fresh = tool.pk_mod.PyKdebugParser()
                apply_filters(fresh, cur)
                fitems, fexc = common.drain(lambda: fresh.callstacks(SimReader(files[di]), tables[di]))
                a = [_cs_repr(c) for c in items]
                if fexc is None and a != [_cs_repr(c) for c in fitems]:
                    viols.append({'tag': 'callstacks-depend-on-history', 'sig': 'vs-fresh-parser',
                                  'detail': 'same request on a fresh parser gives %r, on the long-lived one %r' % ([_cs_repr(c) for c in fitems][:2], a[:2])})
                if h.get('repeat'):
                    nontrivial = True
                    bump('fault:repeat')
                    items2, exc2 = common.drain(lambda: p.callstacks(SimReader(files[di]), tables[di]))
                    b = [_cs_repr(c) for c in items2] if exc2 is None else None
                    if a != b:
                        viols.append({'tag': 'repeat-differs', 'sig': 'callstacks',
                                      'detail': 'first call %r, identical second call %r' % (a[:2], (b or exc2) if b is None else b[:2])})
            hist.append(['callstacks', len(items), type(exc).__name__ if exc else None])
        else:   # kevents after trace requests: obeys the caller's settings
            bump('probe:kevents_after_traces')
            items, exc = common.drain(lambda: p.kevents(SimReader(files[di])))
            fresh = tool.pk_mod.PyKdebugParser()
            ritems, rexc = common.drain(lambda: fresh.kevents(SimReader(files[di])))
            if exc is None and rexc is None:
                pred = event_pred(cur)
                want = [common.ev_tuple(e) for e in ritems if pred(e)]
                got = [common.ev_tuple(e) for e in items]
                if got != want:
                    viols.append({'tag': 'kevents-after-traces-differ', 'sig': 'extra' if len(got) > len(want) else 'missing',
                                  'detail': 'filters as the caller set them %r: %d events, want %d' % (cur, len(got), len(want))})
            hist.append(['kevents', len(items)])
        now = (p.filter_tid, p.filter_process, p.filter_class, p.filter_subclass)
        if now != set_values or [type(x) for x in now] != [type(x) for x in set_values]:
            viols.append({'tag': 'filter-settings-changed', 'sig': what,
                          'detail': 'caller set (tid, process, class, subclass) = %r, after the request they are %r' % (set_values, now)})
    return {'violations': viols[:4], 'digest': digest_of(scn, hist), 'stats': stats, 'nontrivial': nontrivial,
            'shape': repr(sorted(shapes)), 'extent': {'requests': len(hist)}}
