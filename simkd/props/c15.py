"""C15 - callstacks take the sampled frames and attribute each to the right image (DESIGN.md 4.15).

Announcer threads emit image maps (any order, duplicate / adjacent / equal addresses) and launch windows with nested
maps and shared-cache maps; sampler threads emit PERF_Event windows whose frames sit at, just below and just above
the announced addresses, with header counts below / equal / above the words supplied.  The seeded scheduler decides
what "earlier in the stream" is.  Oracle: a linear-scan model over the announcements seen so far, with an
admissible set where the statement leaves the instant open (images announced inside the sample's own window, and
shared-cache maps between their record and the END of their launch)."""
from .. import kernel, model, tool, worlds
from ..disk import SimReader
from ..runner import digest_of
from . import common
from .c05 import draw_sensitive

ID = 'C15'
LEVEL = 'exploration'
RUNS = {'quick': 30000, 'thorough': 600000}
CHUNK = 80
PROBES = ['stack_data_under_two_ids', 'consumer_edits_traces', 'image_unmapped_that_was_never_mapped', 'records_fed_in_batches', 'map_record_with_start_qualifier_in_launch', 'terminate_names_sampled_thread_inside_sample', 'very_many_images', 'lost_record', 'repeated_request_same_object', 'frame_exactly_at_load_address', 'frame_one_below_lowest', 'frame_between_adjacent_images', 'duplicate_address_announced',
          'header_count_below_data', 'header_count_above_data', 'header_count_zero', 'sample_without_header', 'sample_without_flag',
          'launch_with_nested_maps', 'shared_cache_map', 'image_announced_inside_sample_window', 'announcement_after_sample',
          'unrelated_record_in_sample', 'several_data_records', 'via_file_api', 'out_of_order_announcements']
RULE = ('one run = 1..2 announcer threads (2..8 image announcements incl. duplicates/adjacent, launch windows) and 1..2 sampler '
        'threads (1..4 samples, 0..12 frames) merged by a seeded schedule; non-trivial = >= 1 sample with >= 1 frame attributed to '
        'an image while >= 2 distinct images were announced before it; distinct = history digest')
SHAPE_MEASURE = 'distinct (number of images before sample, header/data relation, boundary classes of frames) tuples'
ASSUMPTIONS = ['an image announced inside the sample\'s own window, or a shared-cache map between its record and the END of its launch, may '
               'or may not count as "earlier" (both attributions accepted)', 'one stack header per sample',
               'of the images that one launch list announces at one address, the first map record and the first shared-cache record may each be "the first": the statement does not order the two kinds within a list']
USTACK, THINFO = 8, 1


def generate(rng, index, tier):
    if index % 1009 == 23:
        # one very deep sample: as many data records as a count the source names (or 30000), frames = 4 per record
        nrec = worlds.dict_size(rng, 270000, k=index // 1009) or 30000
        rows = [[0x1000 + 4 * i + j for j in range(4)] for i in range(nrec)]
        ops = [worlds.op_imap(rng, worlds.draw_uuid(rng), 0x1000), worlds.op_sample(rng, flags=8, thd=None, uhdr=(1, 4 * nrec - rng.randrange(0, 3)), udata=rows)]
        return {'threads': [{'tid': 500, 'ops': ops}], 'schedule': [], 'via_file': False, 't0': 0x100001, 'faults': [], 'requests': 1, 'huge': nrec}
    nimg = rng.randint(2, 8)
    if index % 307 == 13:
        nimg = [130, 300, 1100, 4200][(index // 307) % 4]       # a process with very many images
    base = rng.randrange(1, 1 << 20) << 16
    addrs = []
    for _ in range(nimg):
        r = rng.random()
        if addrs and r < 0.2:
            addrs.append(rng.pick(addrs))               # announced twice (different identity)
        elif addrs and r < 0.4:
            addrs.append(rng.pick(addrs) + rng.pick([1, 2, 0x1000]))   # adjacent
        else:
            addrs.append(base + rng.randrange(0, 64 if nimg < 100 else 1 << 16) * 0x1000 if not rng.chance(0.06) else rng.pick([0, 1, (1 << 63) + 0x1000, (1 << 64) - 0x1000]))
    addrs = [a & 0xffffffffffffffff for a in addrs]          # a load address is one 64-bit word of the record
    images = [{'addr': a, 'uuid': worlds.draw_uuid(rng)} for a in addrs]
    for im in images:
        if im['addr'] == 0 and rng.chance(0.5):
            im['uuid'] = '00' * 16        # an image at address 0 with the null identity: every field of its record is zero
    for im in images:
        if rng.chance(0.12):
            im['uuid'] = rng.pick(images)['uuid']       # the same identity at another address (a shared cache mapped twice)
    nann = rng.randint(1, 2)
    threads = []
    lone_unmaps = []
    ann_ops = [[] for _ in range(nann)]
    for im in images:
        ops = ann_ops[rng.randrange(nann)]
        r = rng.random()
        if r < 0.6:
            ops.append(worlds.op_imap(rng, im['uuid'], im['addr']))
            if rng.chance(0.12):
                um = worlds.op_imap(rng, im['uuid'], im['addr'])
                um['name'] = 'DYLD_uuid_unmap_a'      # unmapped again (same identity, same address): not an announcement, and the
                um['a'] = list(ops[-1]['a'])          # statement knows no way of forgetting one
                ops.append(um)
        else:
            # inside a launch window, as a map or a shared-cache map, with unrelated records around
            shared = rng.chance(0.4)
            inner = [worlds.op_imap(rng, im['uuid'], im['addr'], shared=shared)]
            if not shared and rng.chance(0.15):
                inner[0]['q'] = 1         # a map record that carries a START qualifier: not reported on its own, still nested in the launch
            if rng.chance(0.4):
                inner.insert(rng.randrange(2), worlds.op_single(rng, 'MACH_MKRUNNABLE'))
            if rng.chance(0.3) and len(images) > 1:
                other = rng.pick(images)
                inner.append(worlds.op_imap(rng, other['uuid'], other['addr'], shared=rng.chance(0.3)))
            # (the launched executable's own header address is sometimes the address of one of the images in the list)
            mh_ = rng.pick([x['a'][2] for x in inner if x.get('name', '').startswith('DYLD_uuid')]) if rng.chance(0.3) else rng.randrange(1 << 40)
            ops.append({'k': 'sys', 'name': 'DBG_DYLD_TIMING_LAUNCH_EXECUTABLE', 's': [0, mh_, 0, 0],
                        'e': [0, 0, 0, 0], 'in': inner})
    if rng.chance(0.2):
        # images unmapped that this capture never saw mapped (unmapping is not an announcement)
        for _u in range(rng.randint(1, 2)):
            ua = (base + rng.randrange(0, 64) * 0x1000 + rng.pick([0, 0x800])) & 0xffffffffffffffff
            if ua not in addrs:
                um = worlds.op_imap(rng, worlds.draw_uuid(rng), ua)
                um['name'] = rng.pick(['DYLD_uuid_unmap_a', 'DYLD_uuid_unmap_a', 'DYLD_uuid_unmap_b'])
                k_ = rng.randrange(nann)
                ann_ops[k_].insert(rng.randrange(len(ann_ops[k_]) + 1), um)
                lone_unmaps.append(ua)
    for i in range(nann):
        if rng.chance(0.25):
            for _t in range(rng.randint(1, 3)):
                ann_ops[i].insert(rng.randrange(len(ann_ops[i]) + 1), {'k': 'one', 'name': 'TRACE_DATA_THREAD_TERMINATE', 'q': 0, 'a': [rng.pick([500, 501]), 0, 0, 0]})
        threads.append({'tid': 400 + i, 'ops': ann_ops[i]})
    for si in range(rng.randint(1, 2)):
        ops = []
        for _ in range(rng.randint(1, 4)):
            nwords_rows = rng.randint(0, 3)
            cand = []
            for a in addrs:
                cand += [a - 1, a, a + 1, a + 0x800]
            cand += [min(addrs) - 1, 0, 1 << 47, max(addrs) + 0x100000]
            for ua in lone_unmaps:
                cand += [ua, ua + 1, ua + 0x10]
            rows = [[rng.pick(cand) & 0xffffffffffffffff for _ in range(4)] for _ in range(nwords_rows)]
            nwords = 4 * nwords_rows
            nframes = rng.pick([nwords, nwords, max(0, nwords - rng.randint(1, 3)), nwords + rng.randint(1, 5), 0])
            if rng.chance(0.05):
                nframes = rng.pick([(1 << 32) + rng.randrange(0, 4), 1 << 32, 1 << 63, (1 << 64) - 1, (1 << 31) + 1])
            flags = rng.pick([USTACK, USTACK, USTACK | THINFO, USTACK | 4, THINFO, 0, USTACK | 0x100])
            uhdr = (rng.randrange(0, 512), nframes) if rng.chance(0.88) else None
            hdr_tail = [rng.randrange(0, 9), rng.randrange(0, 9)] if rng.chance(0.25) else [0, 0]      # the header's other two words: not the count
            extra = []
            bracket = None
            if rng.chance(0.12):
                # somebody (this thread or not) logs the end of a thread's life naming a sampled thread, while the sample is open
                extra.append({'k': 'one', 'name': 'TRACE_DATA_THREAD_TERMINATE', 'q': 0, 'a': [rng.pick([500, 501, 500 + si]), 0, 0, 0]})
            if rng.chance(0.1):
                # a complete two-record item of the trace class logged while the sample is open (a thread name, a string)
                extra.append({'k': 'tname', 'text': rng.text(rng.pick([33, 40, 60]), multibyte=False), 'prev': False} if rng.chance(0.5) else
                             {'k': 'gstr', 'id': 910000 + rng.randrange(1000), 'dbgid': 0, 'text': rng.text(rng.pick([17, 30, 49]))})
            if rng.chance(0.3):
                extra.append(worlds.op_single(rng, 'MACH_MKRUNNABLE'))
            if rng.chance(0.3):
                near = [k for k, _v in worlds.catalog()['undecoded'] if (k >> 16) in (0x2502, 0x2501, 0x2500)] or [0x25020014]
                extra.append({'k': 'raw', 'id': rng.pick(near), 'q': 0, 'a': rng.words()})   # kernel-stack header/data, stack error, ... (named, not decoded)
            if rng.chance(0.12):
                # a START..END pair of one of those neighbouring codes somewhere inside the sample (a bracket the sampler logs
                # around part of its work): the stack records lie inside it, outside it, or on both sides
                near = [k for k, _v in worlds.catalog()['undecoded'] if (k >> 16) in (0x2502, 0x2501, 0x2500)] or [0x25020014]
                bid = rng.pick(near)
                bracket = [{'k': 'raw', 'id': bid, 'q': 1, 'a': rng.words()}, {'k': 'raw', 'id': bid, 'q': 2, 'a': rng.words()}]
            smp = worlds.op_sample(rng, flags=flags, thd=(77, rng.pick([500 + si, 400, 501 - si, 31337])) if rng.chance(0.4) else None, uhdr=uhdr,
                                   udata=rows, extra=extra)
            if bracket:
                i_ = rng.randrange(len(smp['in']) + 1)
                j_ = rng.randrange(i_, len(smp['in']) + 1)
                smp['in'].insert(j_, bracket[1])
                smp['in'].insert(i_, bracket[0])
                bracket = None
            for sub in smp['in']:
                if sub.get('name') == 'PERF_STK_UHdr':
                    sub['a'][2], sub['a'][3] = hdr_tail
                elif sub.get('name') == 'PERF_STK_UData' and rng.chance(0.08):
                    sub['q'] = rng.pick([1, 3])       # a stack-data record with a START or ALL qualifier is still that record
            ops.append(smp)
            if rng.chance(0.2):
                ops.append(worlds.op_single(rng, 'MACH_MKRUNNABLE'))
        threads.append({'tid': 500 + si, 'ops': ops})
    ids = worlds.catalog()['ids']
    # windows of one thread that overlap without nesting: something unrelated starts before a sample and ends inside it; a launch
    # starts inside a sample, announces an image and ends after it
    und = [k for k, _v in worlds.catalog()['undecoded'] if k >> 24 not in (0x25, 0x1f, 7)]
    for th in threads[nann:]:
        new_ops = []
        for op in th['ops']:
            if op.get('k') == 'sys' and op.get('name') == 'PERF_Event' and und:
                r = rng.random()
                if r < 0.12:
                    xid = rng.pick(und)
                    new_ops.append({'k': 'raw', 'id': xid, 'q': 1, 'a': rng.words()})
                    op['in'].insert(rng.randrange(len(op['in']) + 1), {'k': 'raw', 'id': xid, 'q': 2, 'a': rng.words()})
                    new_ops.append(op)
                    continue
                if r < 0.2:
                    im = rng.pick(images)
                    op['in'].append({'k': 'raw', 'id': ids['DBG_DYLD_TIMING_LAUNCH_EXECUTABLE'], 'q': 1, 'a': [0, rng.randrange(1 << 40), 0, 0]})
                    op['in'].append(worlds.op_imap(rng, im['uuid'], im['addr'], shared=rng.chance(0.7)))
                    new_ops.append(op)
                    new_ops.append({'k': 'raw', 'id': ids['DBG_DYLD_TIMING_LAUNCH_EXECUTABLE'], 'q': 2, 'a': [0, 0, 0, 0]})
                    continue
            new_ops.append(op)
        th['ops'] = new_ops
    per = kernel.expand_threads(threads, ids)
    shape = rng.pick(['sensitive', 'uniform', 'uniform', 'bursty', 'rr1', 'serial'])
    sched = draw_sensitive(rng, per, tool.codes()) if shape == 'sensitive' else kernel.draw_schedule(rng, per, shape)
    total = sum(len(p) for p in per)
    table_spec = None
    if rng.chance(0.06):
        # the caller's table names a second id PERF_STK_UData (tables repeat names), and some stack-data records carry that id
        alias = 0x2f00cc00 + 4 * rng.randrange(1, 50)
        table_spec = {'extra': {str(alias): 'PERF_STK_UData'}}
        for th in threads[nann:]:
            for op in th['ops']:
                if op.get('k') == 'sys' and op.get('name') == 'PERF_Event':
                    for j_, sub in enumerate(op['in']):
                        if sub.get('name') == 'PERF_STK_UData' and rng.chance(0.5):
                            op['in'][j_] = {'k': 'raw', 'id': alias, 'q': sub.get('q', 0), 'a': list(sub['a'])}
    faults = []
    if rng.chance(0.3):
        for _f in range(rng.randint(1, 2)):
            faults.append({'k': 'drop', 'at': rng.randrange(max(1, total))})      # a lost record (END of a sample, a header, a map...)
    return {'threads': threads, 'schedule': sched, 'via_file': rng.chance(0.3), 't0': (rng.randrange(1, 1 << 40) << 8) | 1,
            'tsmode': worlds.draw_tsmode(rng, ties=False), 'faults': faults, 'requests': rng.pick([1, 1, 2, 3]), 'earlier_other': rng.chance(0.2),
            'pages': [rng.randint(1, 7) for _ in range(rng.randint(1, 5))] if rng.chance(0.25) else None, 'consumer_edits': rng.chance(0.15),
            **({'table': table_spec} if table_spec else {})}


def _words_to_uuid(a):
    from uuid import UUID
    from ..records import data_of
    return str(UUID(bytes=data_of(a)[:16]))


def execute(scn):
    stats = {}

    def bump(k, v=1):
        stats[k] = stats.get(k, 0) + v
    fired = {}
    table, stream = worlds.build_stream(scn, fired)
    if fired:
        bump('fault:lost_event', sum(fired.values()))
        bump('probe:lost_record')
    if isinstance(scn.get('table'), dict) and scn['table'].get('extra'):
        bump('probe:stack_data_under_two_ids')
    ids = worlds.catalog()['ids']
    MAP, SC, LAUNCH = ids['DYLD_uuid_map_a'], ids['DYLD_uuid_shared_cache_a'], ids['DBG_DYLD_TIMING_LAUNCH_EXECUTABLE']
    PE, HDR, DATA = ids['PERF_Event'], ids['PERF_STK_UHdr'], ids['PERF_STK_UData']
    # --- model: announcements with [earliest, latest] positions; samples with windows
    ann = []          # (lo, hi, addr, uuid)
    open_launch = {}  # tid -> list of pending shared-cache maps (index into ann)
    samples = []
    open_sample = {}
    for i, r in enumerate(stream):
        if table.get(r['id'], '').startswith('DYLD_uuid_unmap') and not any(a_[2] == r['a'][2] for a_ in ann):
            bump('probe:image_unmapped_that_was_never_mapped')
        if r['id'] == MAP and r['q'] in (0, 3):
            ann.append([i, i, r['a'][2], _words_to_uuid(r['a']), 'map'])
        elif r['id'] == MAP and r['q'] == 1:
            bump('probe:map_record_with_start_qualifier_in_launch')
            if r['t'] in open_launch:
                ann.append([i, None, r['a'][2], _words_to_uuid(r['a']), 'map'])
                open_launch[r['t']].append(len(ann) - 1)
        elif r['id'] == SC and r['q'] in (0, 3):
            if r['t'] in open_launch:
                ann.append([i, None, r['a'][2], _words_to_uuid(r['a']), 'sc'])
                open_launch[r['t']].append(len(ann) - 1)
            bump('probe:shared_cache_map')
        elif r['id'] == LAUNCH and r['q'] == 1:
            open_launch[r['t']] = []
        elif r['id'] == LAUNCH and r['q'] == 2 and r['t'] in open_launch:
            for k in open_launch.pop(r['t']):
                ann[k][1] = i
            bump('probe:launch_with_nested_maps')
        if table.get(r['id']) == 'TRACE_DATA_THREAD_TERMINATE' and r['a'][0] in open_sample:
            bump('probe:terminate_names_sampled_thread_inside_sample')
        if r['id'] == PE and r['q'] == 1:
            open_sample[r['t']] = {'start': i, 'hdr': None, 'rows': [], 'flags': r['a'][0], 'ts': r['ts'], 'tid': r['t'], 'other': 0}
        elif r['t'] in open_sample and r['id'] != PE:
            s = open_sample[r['t']]
            if r['id'] == HDR and s['hdr'] is None:
                s['hdr'] = r['a'][1]
            elif r['id'] == DATA or table.get(r['id']) == 'PERF_STK_UData':
                s['rows'].append(list(r['a']))
            else:
                s['other'] += 1
        elif r['id'] == PE and r['q'] == 2 and r['t'] in open_sample:
            s = open_sample.pop(r['t'])
            s['end'] = i
            samples.append(s)
    ann = [a for a in ann if a[1] is not None]
    if len(ann) >= 128:
        bump('probe:very_many_images')      # shared-cache maps outside a completed launch are never announced
    # --- the real pipeline
    viols = []
    hist = []
    if scn.get('earlier_other'):
        # the same addresses were announced (with other identities) to OTHER parser objects earlier in this process
        edata, _ = worlds.build_file({'version': 2, 'tmap': [], 'pad': 0}, [kernel.to_bytes(r) for r in reversed(stream)])
        common.pollute_other_objects(table, list(reversed(stream)), edata)
        bump('fault:residue')
        bump('earlier_other_objects')
    if scn.get('via_file'):
        bump('probe:via_file_api')
        data, _ = worlds.build_file({'version': 2, 'tmap': [], 'pad': 0}, [kernel.to_bytes(r) for r in stream])
        p = tool.pk_mod.PyKdebugParser()
        got, exc = common.drain(lambda: p.callstacks(SimReader(data), table))
        for _rq in range(scn.get('requests', 1) - 1):
            # the same request again on the same object: judged against the same model (it is a function of the dump)
            bump('probe:repeated_request_same_object')
            bump('fault:repeat')
            if exc is None:
                got, exc = common.drain(lambda: p.callstacks(SimReader(data), table))
    else:
        tparser = tool.tp_mod.TracesParser(table, {}, {})
        cparser = tool.cs_mod.CallstacksParser([], [])
        evs_ = worlds.kevents_of(stream)
        if scn.get('consumer_edits'):
            # whoever sits between the two parsers uses every trace up once the callstack parser has seen it
            from .c20 import _consume
            bump('fault:consumer_edits_results')
            bump('probe:consumer_edits_traces')
            real_fg = tparser.feed_generator

            def tapped(gen):
                for t_ in real_fg(gen):
                    yield t_
                    _consume(t_)
            tparser.feed_generator = tapped
        if scn.get('pages'):
            # live capture: the records arrive in batches, each batch goes through a feed_generator() call of its own on the same
            # long-lived parser objects (a sample may begin in one batch and end in the next)
            bump('probe:records_fed_in_batches')

            def batches():
                pos = 0
                k = 0
                while pos < len(evs_):
                    n_ = scn['pages'][k % len(scn['pages'])]
                    k += 1
                    yield from tparser.feed_generator(iter(evs_[pos:pos + n_]))
                    pos += n_
            got, exc = common.drain(lambda: cparser.feed_generator(batches()))
        else:
            got, exc = common.drain(lambda: cparser.feed_generator(tparser.feed_generator(evs_)))
    if scn.get('via_file') and exc is None:
        # the rendered view of the same request names the same frames: ' ' * i + 'uuid:0x<offset>' or '0x<address>'
        fp = tool.pk_mod.PyKdebugParser()
        fp.show_timestamp = fp.show_process = fp.show_tid = False
        lines, fexc = common.drain(lambda: fp.formatted_callstacks(SimReader(data), table))
        if fexc is None:
            want_lines = ['\n'.join([''] + [(' ' * i) + ('%s:0x%016x' % (f.uuid, f.offset) if f.uuid is not None else '0x%016x' % f.address)
                                              for i, f in enumerate(c.frames)]) for c in got]
            if lines != want_lines:
                j = next((j for j in range(max(len(lines), len(want_lines))) if j >= len(lines) or j >= len(want_lines) or lines[j] != want_lines[j]), 0)
                viols.append({'tag': 'formatted-callstack-differs', 'sig': 'count' if len(lines) != len(want_lines) else 'frames',
                              'detail': 'callstack %d: formatted_callstacks prints %r, the callstack object renders as %r' % (
                                  j, lines[j] if j < len(lines) else None, want_lines[j] if j < len(want_lines) else None)})
    if exc is not None:
        viols.append({'tag': 'raised', 'sig': common.exc_sig(exc), 'detail': repr(exc)})
        return {'violations': viols, 'digest': digest_of(scn, ['raised']), 'stats': stats, 'nontrivial': False, 'shape': 'raised'}
    expected = [s for s in samples if (s['flags'] & USTACK) and s['hdr'] is not None]
    for s in samples:
        if s['hdr'] is None:
            bump('probe:sample_without_header')
        if not s['flags'] & USTACK:
            bump('probe:sample_without_flag')
    shapes = set()
    nontrivial = False
    if len(got) != len(expected):
        viols.append({'tag': 'callstack-count', 'sig': 'more' if len(got) > len(expected) else 'fewer',
                      'detail': '%d callstacks for %d user-stack samples with a header (of %d samples)' % (len(got), len(expected), len(samples))})
    else:
        for cs, s in zip(got, expected):
            words = [w for row in s['rows'] for w in row]
            n = s['hdr']
            want_frames = words[:n]
            if n < len(words):
                bump('probe:header_count_below_data')
            elif n > len(words):
                bump('probe:header_count_above_data')
            if n == 0:
                bump('probe:header_count_zero')
            if len(s['rows']) >= 2:
                bump('probe:several_data_records')
            if s['other']:
                bump('probe:unrelated_record_in_sample')
            if cs.timestamp != s['ts'] or cs.tid != s['tid']:
                viols.append({'tag': 'callstack-stamp', 'sig': 'ts' if cs.timestamp != s['ts'] else 'tid',
                              'detail': 'sample started at ts %d on tid %d; callstack stamped %d / %d' % (s['ts'], s['tid'], cs.timestamp, cs.tid)})
            if [f.address for f in cs.frames] != want_frames:
                viols.append({'tag': 'callstack-frames', 'sig': 'count' if len(cs.frames) != len(want_frames) else 'values',
                              'detail': 'header count %d, %d data words %r: frames %r' % (n, len(words), words, [f.address for f in cs.frames])})
                continue
            definite = sorted([a for a in ann if a[1] < s['start']], key=lambda a: a[1])
            maybe = [a for a in ann if a[1] >= s['start'] and a[0] <= s['end']]
            if maybe:
                bump('probe:image_announced_inside_sample_window')
            if any(a[0] > s['end'] for a in ann):
                bump('probe:announcement_after_sample')
            dimages = [(a[2], a[3]) for a in definite]
            daddrs = [a[2] for a in definite]
            if len(daddrs) != len(set(daddrs)):
                bump('probe:duplicate_address_announced')
            if daddrs != sorted(daddrs):
                bump('probe:out_of_order_announcements')
            distinct_before = len(set(daddrs))
            classes = set()
            for fr in cs.frames:
                uuid, off = model.attribute(dimages, fr.address)
                ok = {(uuid, off)}
                dbest = fr.address - off if uuid is not None else -1
                if uuid is not None:
                    # several images of one launch list share this address: they are announced at the same instant (the launch's
                    # END) and the statement does not order a list's map entries against its shared-cache entries
                    first_time = min(a[1] for a in definite if a[2] == dbest)
                    seen_kinds = set()
                    for a in definite:
                        if a[2] == dbest and a[1] == first_time and a[4] not in seen_kinds:
                            # (within one kind of record the list keeps stream order; between map and shared-cache records of one
                            #  list the order is left open: the first of either kind may be 'the first')
                            seen_kinds.add(a[4])
                            ok.add((a[3], off))
                for a in maybe:
                    if a[2] <= fr.address and a[2] >= dbest:
                        if a[2] == dbest and uuid is not None:
                            continue      # same address as a definite earlier identity: first identity is kept
                        ok.add((a[3], fr.address - a[2]))
                gotp = (str(fr.uuid) if fr.uuid is not None else None, fr.offset)
                if fr.address in daddrs:
                    bump('probe:frame_exactly_at_load_address')
                    classes.add('at')
                if daddrs and fr.address == min(daddrs) - 1:
                    bump('probe:frame_one_below_lowest')
                    classes.add('below')
                if any(x + 1 in daddrs or x + 2 in daddrs for x in daddrs) and uuid is not None:
                    bump('probe:frame_between_adjacent_images')
                if gotp not in ok:
                    cls = 'at' if fr.address in daddrs else ('below-all' if uuid is None else 'inside')
                    viols.append({'tag': 'frame-attribution', 'sig': cls,
                                  'detail': 'frame %#x: tool says %r, images announced before the sample %r (inside its window: %r) give %r'
                                            % (fr.address, gotp, [(hex(a), u) for a, u in dimages], [(hex(a[2]), a[3]) for a in maybe], sorted(ok, key=str))})
                    break
                if gotp[1] is not None and gotp[1] < 0:
                    viols.append({'tag': 'negative-offset', 'sig': 'offset', 'detail': 'frame %#x offset %d' % (fr.address, gotp[1])})
                if gotp[0] is not None and distinct_before >= 2:
                    nontrivial = True
            shapes.add((min(distinct_before, 5), 'lt' if n < len(words) else 'gt' if n > len(words) else 'eq', tuple(sorted(classes))))
            hist.append([cs.timestamp, cs.tid, [[f.address, str(f.uuid), f.offset] for f in cs.frames]])
    return {'violations': viols[:3], 'digest': digest_of(scn, hist), 'stats': stats, 'nontrivial': nontrivial,
            'shape': repr(sorted(shapes)), 'extent': {'records_delivered': len(stream), 'scheduler_steps': len(stream), 'samples': len(samples)}}
