"""C04 - START/END pairing delivers exactly each operation's per-thread window (DESIGN.md 4.4).

Step-wise refinement: the merged, fault-injected stream is fed one record at a time to a real TracesParser whose
per-instance handler table is wrapped by recording spies; after every record the depth-1 decoder invocations and the
returned trace are compared with the window model's prediction for that record."""
from .. import kernel, model, tool, worlds
from ..runner import digest_of

ID = 'C04'
LEVEL = 'exploration'
RUNS = {'quick': 24000, 'thorough': 400000}
CHUNK = 100
PROBES = ['enumerated_start_end_order', 'two_feeders_on_one_parser', 'paged_feed_generator', 'long_window', 'same_name_code_pair', 'parser_built_with_thread_map', 'earlier_parser_object', 'timestamps_not_monotone', 'timestamp_ties', 'record_names_thread_with_open_window', 'stray_end', 'stray_end_inside_open_window', 'reopened_start', 'crossing_pairs', 'nested_same_thread',
          'other_thread_between', 'trace_domain_window', 'trace_record_inside_ordinary_window', 'undecoded_pair',
          'unknown_code', 'all_qualifier', 'fragment_none', 'fault_in_open_window', 'decoder_raised']
RULE = ('one run = 1..6 thread programs (all decoder families, trace-domain records, known-but-undecoded and unknown '
        'codes, all four qualifiers, re-opened/crossing/stray patterns) merged by a seeded schedule, 0..3 stream faults '
        '(ring wrap, lost event, lost burst, killed thread), fed record by record; non-trivial = >= 2 threads '
        'interleaved or >= 1 stray END / re-opened START / crossing pair / fault fired inside an open window; '
        'distinct = distinct history digest')
SHAPE_MEASURE = 'distinct (max open windows, stray, reopened, crossing, faults fired, trace-domain) signatures plus model-state signatures'
ASSUMPTIONS = ['decoder exceptions are isolated by the spy in this check only (they are C07\'s subject)',
               'pairing domain of a record = whether the supplied table names it one of the ten TRACE_DATA_*/TRACE_STRING_* records']

FRAGMENT_NAMES = ('VFS_LOOKUP', 'TRACE_STRING_GLOBAL', 'TRACE_STRING_THREADNAME', 'TRACE_STRING_THREADNAME_PREV')


class DecoderRaised:
    def __init__(self, events, exc):
        self.ktraces = events
        self.exc = exc

    def __str__(self):
        return 'decoder raised'


def _pattern_ops(rng, ctx):
    """Unmatched / repeated / nested / crossing patterns built from raw START/END records of known codes."""
    cat = worlds.catalog()
    ids = cat['ids']

    def code():
        r = rng.random()
        if r < 0.55:
            return ids[rng.pick(cat['mach'] + cat['turnstile'] + cat['bsd'][:60])]
        if r < 0.7:
            return ids[rng.pick(['TRACE_STRING_GLOBAL', 'TRACE_STRING_THREADNAME', 'TRACE_DATA_EXEC', 'TRACE_STRING_PROC_EXIT'])]
        if r < 0.85:
            return rng.pick(cat['undecoded'])[0]
        return 0xf1000000 | (rng.randrange(1 << 10) << 2)

    def rec(eid, q):
        return {'k': 'raw', 'id': eid, 'q': q, 'a': [rng.randrange(0, 4) for _ in range(4)]}
    a, b = code(), code()
    kind = rng.pick(['stray', 'reopen', 'cross', 'nest', 'startonly', 'all', 'strayinside', 'samename', 'crossdec', 'dup', 'dup', 'stray2', 'samestring'])
    if kind == 'stray2':
        # two ENDs of a code that was never started, with other records of the thread between them
        return [rec(a, 2), rec(b, rng.pick([0, 3, 1])), rec(a, 2)]
    if kind == 'samestring':
        # the same global string (same id, same text) announced twice: two announcements, two traces
        g = worlds.op_gstr(rng, ctx.new_string_id(), length=rng.pick([5, 16, 17, 40]))
        mid = [rec(b, rng.pick([0, 3]))] if rng.chance(0.5) else []
        return [g] + mid + [dict(g)]
    if kind == 'dup':
        # the same record twice, equal in every field (under tied timestamps even the timestamp): still two events
        r1 = rec(b, rng.pick([1, 0, 3, 1]))
        return [rec(a, 1), r1, dict(r1), rec(a, 2)]
    if kind == 'samename':
        return [worlds.op_same_name_pair(rng)]
    if kind == 'crossdec':
        return [worlds.op_crossing(rng, ctx)]
    if kind == 'stray':
        return [rec(a, 2)]
    if kind == 'reopen':
        return [rec(a, 1), rec(b, 0), rec(a, 1), rec(a, 2)]
    if kind == 'cross':
        return [rec(a, 1), rec(b, 1), rec(a, 2), rec(b, 2)]
    if kind == 'nest':
        return [rec(a, 1), rec(b, 1), rec(b, 2), rec(a, 2)]
    if kind == 'startonly':
        return [rec(a, 1)]
    if kind == 'all':
        return [rec(a, 3)]
    return [rec(a, 1), rec(b, 2), rec(a, 2)]


_SEQS = None


def canonical_sequences(maxlen=7, codes=3):
    """Every sequence of START / END records of one thread over at most `codes` codes, up to renaming of the codes (the first
    code used is 0, the next new one 1, ...), beginning with a START, of length 3..maxlen - ordered by length."""
    global _SEQS
    if _SEQS is None:
        out = []

        def grow(seq, used):
            if len(seq) >= 3:
                out.append(tuple(seq))
            if len(seq) == maxlen:
                return
            for k in range(min(codes, used + 1)):
                for q in (1, 2):
                    if k == used and q == 2:
                        continue          # the END of a code never started: covered by the stray-END patterns
                    grow(seq + [(k, q)], max(used, k + 1))
        grow([(0, 1)], 1)
        out.sort(key=lambda t: (len(t), t))
        _SEQS = out
    return _SEQS


def generate(rng, index, tier):
    if index % 3 == 2:
        # the short orders of STARTs and ENDs of one thread, enumerated (run index -> sequence), each with a seeded choice of
        # codes, of NONE records in between and of a second thread
        seqs = canonical_sequences()
        seq = seqs[(index // 3) % len(seqs)]
        cat = worlds.catalog()
        domain_mix = rng.pick(['ord', 'ord', 'trace', 'mixed'])
        pool_ord = [cat['ids'][n] for n in ('BSC_read', 'BSC_getpid', 'MACH_vmfault', 'MSC_mach_reply_port', 'BSC_write') if n in cat['ids']] + [k for k, _v in cat['undecoded'][:3]]
        pool_trace = [cat['ids'][n] for n in ('TRACE_STRING_THREADNAME', 'TRACE_STRING_GLOBAL', 'TRACE_DATA_EXEC', 'TRACE_STRING_THREADNAME_PREV') if n in cat['ids']]
        chosen = []
        for k in range(3):
            pool = pool_trace if domain_mix == 'trace' or (domain_mix == 'mixed' and rng.chance(0.5)) else pool_ord
            chosen.append(rng.pick([x for x in pool if x not in chosen] or pool))
        ops = []
        for k, q in seq:
            ops.append({'k': 'raw', 'id': chosen[k], 'q': q, 'a': [1, 2, 3, 4] if chosen[k] in pool_ord else worlds.kernel.records.text_words(b'ab', 4)})
            r_ = rng.random()
            if r_ < 0.15:
                ops.append(worlds.op_single(rng, 'MACH_MKRUNNABLE'))
            elif r_ < 0.3:
                # a NONE- or ALL-qualified record of one of the very codes in play (a middle chunk, a progress record of the call)
                kk = rng.randrange(3)
                ops.append({'k': 'raw', 'id': chosen[kk], 'q': rng.pick([0, 0, 3]),
                            'a': [1, 2, 3, 4] if chosen[kk] in pool_ord else worlds.kernel.records.text_words(b'cd', 4)})
        threads = [{'tid': 100, 'ops': ops}]
        if rng.chance(0.4):
            threads.append({'tid': 117, 'ops': worlds.gen_ops(rng, worlds.Ctx(1, 117, [100, 117]), 2, {'bsd': 1, 'mach': 1, 'tracedom': 1})})
        per = kernel.expand_threads(threads, cat['ids'])
        return {'threads': threads, 'schedule': kernel.draw_schedule(rng, per, rng.pick(kernel.SHAPES)), 'faults': [], 'tsmode': None,
                'tmap': rng.chance(0.5), 'earlier': False, 'late_table': False, 'paged': rng.chance(0.2), 'two_feeders': rng.chance(0.2),
                'consumer_edits': rng.chance(0.15), 'enumerated': len(seq)}
    if index % 2999 == 37:
        # a busy system: as many distinct threads as a count the source names, each leaving an operation open, while one early
        # thread sits inside an ordinary and a trace-domain window that close at the very end
        n = worlds.dict_size(rng, 70000, k=index // 2999) or 5000
        s_, e_ = worlds.domains.draw(rng, 'BSC_read')
        victim = {'tid': 50, 'ops': [{'k': 'sys', 'name': 'BSC_getpid', 's': [0, 0, 0, 0], 'e': [0, 1, 0, 0], 'in': []}] +
                  ([{'k': 'tname', 'text': 'v' * 40, 'prev': False}] if (index // 2999) % 2 == 0 else
                   [{'k': 'sys', 'name': 'BSC_read', 's': s_, 'e': e_, 'in': [{'k': 'tname', 'text': 'v' * 40, 'prev': False}]}])}
        crowd = [{'tid': 1000 + i, 'ops': [{'k': 'raw', 'id': 0x40c0010, 'q': 1, 'a': [i, 0, 0, 0]}]} for i in range(n)]
        # victim: getpid S,E then read START, name chunk 1 | the crowd | name chunk 2, read END
        lead = 3 if (index // 2999) % 2 == 0 else 4      # the victim's records up to and including the first chunk of its thread name
        return {'threads': [victim] + crowd, 'schedule': [0] * lead + [1] * n + [0, 0], 'faults': [], 'long': n}
    if index % 997 == 1:
        # a long-running operation: thousands of same-thread records inside one window, then the thread goes on
        n = worlds.LONG_SIZES[(index // 997) % len(worlds.LONG_SIZES)]
        if (index // 997) % 3 == 2:
            n = worlds.dict_size(rng, 70000 if tier == 'quick' else 270000, k=(index // 997) // 3) or n      # right at a count the source names
        ctx = worlds.Ctx(0, 100, [100, 117])
        name = rng.pick(['BSC_read', 'MACH_vmfault', 'DBG_DYLD_TIMING_LAUNCH_EXECUTABLE', 'BSC_open'])
        ops = [worlds.op_long_window(rng, name, n)] + worlds.gen_ops(rng, ctx, 2, {'bsd': 1, 'mach': 1})
        other = worlds.gen_ops(rng, worlds.Ctx(1, 117, [100, 117]), 3, {'bsd': 1, 'mach': 1, 'path': 1})
        return {'threads': [{'tid': 100, 'ops': ops}, {'tid': 117, 'ops': other}], 'schedule': [0] * 50 + [1, 0] * 20, 'faults': [], 'long': n}
    nthreads = rng.pick([1, 2, 2, 3, 3, 4, 6])
    mix = {'bsd': 4, 'path': 3, 'mach': 3, 'turnstile': 1, 'dyld': 1, 'perf': 1, 'tracedom': 3, 'lookup': 1, 'gstr': 2,
           'undecoded': 2, 'unknown': 1, 'single': 2, 'anydecodable': 1}
    for k in list(mix):
        if rng.chance(0.2):
            mix[k] = 0
    if not any(mix.values()):
        mix['mach'] = 1
    threads = []
    tids = [100 + ti * 17 + rng.randrange(0, 9) for ti in range(nthreads)]
    for ti in range(nthreads):
        tid = tids[ti]
        ctx = worlds.Ctx(ti, tid, tids)     # records that name a thread may name a live simulated one
        ops = worlds.gen_ops(rng, ctx, rng.randint(1, 7), mix)
        for _ in range(rng.randint(0, 3)):
            pos = rng.randrange(len(ops) + 1)
            pat = _pattern_ops(rng, ctx)
            # sometimes put the pattern inside an existing window
            tgt = [o for o in ops if o['k'] == 'sys']
            if tgt and rng.chance(0.5):
                rng.pick(tgt).setdefault('in', []).extend(pat)
            else:
                ops[pos:pos] = pat
        threads.append({'tid': tid, 'ops': ops})
    if nthreads >= 2 and rng.chance(0.1):
        # thread 0, inside an open call, announces a LIVE peer as a new thread of its own process (exec-copy word set or not);
        # the peer logs the END of that very call without ever having started it
        cat_ = worlds.catalog()
        code = rng.pick([cat_['ids']['BSC_read'], cat_['ids']['BSC_getpid'], cat_['ids']['MACH_vmfault'], cat_['undecoded'][0][0]])
        peer = rng.randrange(1, nthreads)
        nt = worlds.op_newthread(rng, tids[peer], 1001, rng.ident())
        nt['ops'][0]['a'][2] = rng.pick([0, 1, 1, 7])
        threads[0]['ops'].insert(rng.randrange(len(threads[0]['ops']) + 1),
                                 {'k': 'seq', 'ops': [{'k': 'raw', 'id': code, 'q': 1, 'a': [1, 2, 3, 4]}, nt, {'k': 'raw', 'id': code, 'q': 2, 'a': [0, 0, 0, 0]}]})
        threads[peer]['ops'].insert(rng.randrange(len(threads[peer]['ops']) + 1), {'k': 'raw', 'id': code, 'q': 2, 'a': [0, 5, 0, 0]})
    ids = worlds.catalog()['ids']
    per = kernel.expand_threads(threads, ids)
    total = sum(len(p) for p in per)
    scn = {'threads': threads, 'schedule': kernel.draw_schedule(rng, per, rng.pick(kernel.SHAPES)), 'tsmode': worlds.draw_tsmode(rng)}
    faults = []
    for _ in range(rng.pick([0, 0, 1, 1, 2, 3])):
        k = rng.pick(['wrap', 'drop', 'drop', 'burst', 'kill'])
        if k == 'wrap':
            faults.append({'k': 'wrap', 'n': rng.randint(1, max(1, total // 2))})
        elif k == 'drop':
            faults.append({'k': 'drop', 'at': rng.randrange(max(1, total))})
        elif k == 'burst':
            faults.append({'k': 'burst', 'th': rng.randrange(nthreads), 'from': rng.randrange(0, 8), 'n': rng.randint(1, 4)})
        else:
            faults.append({'k': 'kill', 'th': rng.randrange(nthreads), 'after': rng.randrange(0, 10)})
    scn['faults'] = faults
    scn['tmap'] = rng.chance(0.5)          # the parser is built with a populated thread map (as PyKdebugParser does on reuse)
    scn['earlier'] = rng.chance(0.2)
    scn['late_table'] = rng.chance(0.1)
    scn['paged'] = rng.chance(0.25)        # the same stream also goes through feed_generator() in pages on a second parser    # the caller completes the code table it handed over after building the parser       # another parser object in the same process saw unfinished operations of these threads
    scn['two_feeders'] = rng.chance(0.2)
    scn['consumer_edits'] = rng.chance(0.15)     # every returned trace's record list is emptied by the caller as soon as it is judged
    if rng.chance(0.15):
        # id-remapped table: a decodable name lives under another id
        cat = worlds.catalog()
        name = rng.pick(cat['mach'])
        scn['table'] = {'remap': {name: 0x2f000000 | (rng.randrange(1, 1 << 12) << 2)}}
    return scn


def execute(scn):
    stats = {}

    def bump(k, v=1):
        stats[k] = stats.get(k, 0) + v
    fired = {}
    table, stream = worlds.build_stream(scn, fired)
    for k, v in fired.items():
        bump('fault:' + k, v)
    events = worlds.kevents_of(stream)
    index_of = {id(e): i for i, e in enumerate(events)}
    if scn.get('long'):
        bump('probe:long_window')
    if scn.get('enumerated'):
        bump('probe:enumerated_start_end_order')
    if scn.get('earlier'):
        # a DIFFERENT parser object is fed the STARTs and data records of the first half of the stream and then dropped:
        # nothing it saw may influence the judged parser (no module-level / class-level / default-argument state)
        bump('probe:earlier_parser_object')
        bump('fault:residue')
        # (that other object was built with ANOTHER code table: ids this stream uses are unknown to it, or carry other names)
        other_table = {k: v for k, v in table.items() if k % 16 != 0}
        for r in stream[:6]:
            other_table[r['id']] = 'MACH_MKRUNNABLE' if table.get(r['id']) != 'MACH_MKRUNNABLE' else 'MACH_BLOCK'
        ep = tool.tp_mod.TracesParser(other_table, {r['t']: 4242 for r in stream}, {})
        for r, ev in list(zip(stream, events))[:max(1, len(events) // 2)]:
            if r['q'] in (1, 0, 3) or table.get(r['id'], '').startswith('TRACE_DATA'):
                try:
                    ep.feed(tool.kevent(kernel.to_bytes(r)))
                except Exception:
                    pass
    tmap = {}
    if scn.get('tmap'):
        bump('probe:parser_built_with_thread_map')
        # (the pid of thread i is the first pid its own program announces: a thread that creates a thread or execs names its own process)
        tmap = {th['tid']: ((i + 1) * 1000 + 1 if i % 2 == 0 else 5000 + i) for i, th in enumerate(scn['threads'])}
    if scn.get('late_table'):
        partial = {k: v for k, v in table.items() if v not in tool.TRACE_DOMAIN_NAMES and k % 8 != 0}
        parser = tool.tp_mod.TracesParser(partial, tmap, {p: 'proc%d' % p for p in tmap.values()})
        partial.update(table)          # same dict object, completed before the first event is fed
        table = partial
        bump('table_completed_after_construction')
    else:
        parser = tool.tp_mod.TracesParser(table, tmap, {p: 'proc%d' % p for p in tmap.values()})
    calls = []
    depth = [0]

    def spy(name, fn):
        def wrapped(p, evs):
            depth[0] += 1
            d = depth[0]
            try:
                calls.append((name, [index_of.get(id(e), -1) for e in evs], d))
                try:
                    return fn(p, evs)
                except Exception as exc:
                    if d == 1:
                        return DecoderRaised(evs, exc)
                    raise
            finally:
                depth[0] -= 1
        return wrapped
    for name in list(parser.handlers):
        parser.handlers[name] = spy(name, parser.handlers[name])

    if scn.get('tsmode'):
        bump('probe:timestamps_not_monotone' if scn['tsmode'][0] == 'jitter' else 'probe:timestamp_ties')
    m = model.Windows()
    viols = []
    hist = []
    sigs = set()
    reported = []     # (trace, window delivered at that moment) - nothing already reported may change later
    reported_lists = []
    threads_seen = set()
    last_th = None
    switches = 0
    open_any = False

    def bad(tag, sig, detail):
        if len(viols) < 5:
            viols.append({'tag': tag, 'sig': sig, 'detail': detail})
    # which stream positions are adjacent to a fired fault: approximated by "any fault fired while a window was open"
    for i, (rec, ev) in enumerate(zip(stream, events)):
        name = table.get(rec['id'])
        domain = 'trace' if name in tool.TRACE_DOMAIN_NAMES else 'ord'
        decodable = name is not None and name in parser.handlers
        if name is None:
            bump('probe:unknown_code')
        if last_th is not None and rec['th'] != last_th:
            switches += 1
            if m.open.get(('ord', stream[i - 1]['t'])) or m.open.get(('trace', stream[i - 1]['t'])):
                bump('probe:other_thread_between')
        last_th = rec['th']
        threads_seen.add(rec['th'])
        if name in ('TRACE_DATA_THREAD_TERMINATE', 'TRACE_DATA_NEWTHREAD', 'PERF_THD_Data') and rec['q'] in (0, 3):
            named = rec['a'][1] if name == 'PERF_THD_Data' else rec['a'][0]
            if m.open.get(('ord', named)) or m.open.get(('trace', named)):
                bump('probe:record_names_thread_with_open_window')
        before_open = {k: set(m.open[k]) for k in (('ord', rec['t']), ('trace', rec['t'])) if k in m.open}
        exp = m.feed(i, rec['t'], rec['id'], rec['q'], domain)
        del calls[:]
        try:
            ret = parser.feed(ev)
        except Exception as e:
            bad('pairing-layer-raised', type(e).__name__, 'record %d (%s q=%d): %r' % (i, name, rec['q'], e))
            break
        top = [c for c in calls if c[2] == 1]
        kind = exp['kind']
        if isinstance(ret, DecoderRaised):
            bump('probe:decoder_raised')
        if kind == 'start':
            if len(before_open.get((domain, rec['t']), ())) >= 1:
                bump('probe:nested_same_thread')
            if domain == 'trace' and before_open.get(('ord', rec['t'])):
                bump('probe:trace_record_inside_ordinary_window')
            if top or ret is not None:
                bad('emitted-on-start', 'start', 'record %d START of %s produced invocations %r / trace %r' % (i, name, top, ret))
        elif kind == 'end-stray':
            bump('probe:stray_end')
            if before_open.get((domain, rec['t'])):
                bump('probe:stray_end_inside_open_window')
            if top or ret is not None:
                bad('emitted-on-stray-end', 'stray', 'record %d stray END of %s produced %r / %r' % (i, name, top, ret))
        elif kind == 'end-matched':
            if domain == 'trace':
                bump('probe:trace_domain_window')
            if len(exp['may']) != len(exp['must']):
                pass
            if decodable:
                if len(top) != 1:
                    bad('matched-end-invocations', 'n=%d' % len(top), 'record %d END of %s: %d depth-1 invocations %r' % (i, name, len(top), top))
                else:
                    cname, w, _ = top[0]
                    if cname != name:
                        bad('wrong-decoder', 'matched', 'record %d END of %s dispatched to %s' % (i, name, cname))
                    if -1 in w:
                        bad('foreign-event-in-window', 'matched', 'record %d: window holds an event that was never fed' % i)
                    elif not w or w[0] != exp['may'][0]:
                        bad('window-first', 'matched', 'record %d END of %s: window starts at %r, most recent START is %d; window %r'
                            % (i, name, w[:1], exp['may'][0], w))
                    elif w[-1] != i:
                        bad('window-last', 'matched', 'record %d END of %s: window ends at %d' % (i, name, w[-1]))
                    elif any(stream[j]['t'] != rec['t'] for j in w):
                        bad('window-other-thread', 'matched', 'record %d END of %s: window %r holds another thread\'s event' % (i, name, w))
                    elif not model.window_ok(w, exp['must'], exp['may']):
                        bad('window-contents', 'matched', 'record %d END of %s: window %r, must %r, may %r' % (i, name, w, exp['must'], exp['may']))
                    if ret is None:
                        bad('no-trace-on-matched-end', 'matched', 'record %d END of %s (decodable): no trace' % (i, name))
                    elif not isinstance(ret, DecoderRaised) and name != 'TRACE_STRING_GLOBAL' and isinstance(getattr(ret, 'ktraces', None), list):
                        # the trace's own event list is the delivered window (TRACE_STRING_GLOBAL keeps, by design, only the
                        # records up to the first END-qualified one)
                        kt = [index_of.get(id(e), -1) for e in ret.ktraces]
                        if not kt or kt[0] != exp['may'][0] or kt[-1] != i or not model.window_ok(kt, exp['must'], exp['may']):
                            bad('trace-event-list', 'matched', 'record %d END of %s: trace.ktraces %r, window must %r may %r' % (i, name, kt, exp['must'], exp['may']))
                        reported.append((ret, list(ret.ktraces), i))
            else:
                if name is not None:
                    bump('probe:undecoded_pair')
                if top:
                    bad('decoder-for-undecodable', 'matched', 'record %d END of %r: invocations %r' % (i, name, top))
                if ret is not None:
                    kt = getattr(ret, 'ktraces', None)
                    w = [index_of.get(id(e), -1) for e in kt] if isinstance(kt, list) else None
                    if w is None or not w or w[0] != exp['may'][0] or w[-1] != i or not model.window_ok(w, exp['must'], exp['may']):
                        bad('trace-for-undecodable', 'matched', 'record %d END of %r: emitted %r' % (i, name, ret))
        else:  # single
            if rec['q'] == 3:
                bump('probe:all_qualifier')
            fragment = rec['q'] == 0 and name in FRAGMENT_NAMES
            if fragment:
                bump('probe:fragment_none')
            if decodable:
                if fragment and not top:
                    if ret is not None:
                        bad('trace-without-decoder', 'fragment', 'record %d' % i)
                elif len(top) != 1 or top[0][0] != name or top[0][1] != [i]:
                    bad('single-invocations', 'q=%d' % rec['q'], 'record %d %s q=%d: depth-1 invocations %r (want one with [%d])' % (i, name, rec['q'], top, i))
                elif ret is None and not fragment:
                    bad('no-trace-on-single', 'q=%d' % rec['q'], 'record %d %s q=%d: no trace' % (i, name, rec['q']))
            else:
                if top or ret is not None:
                    bad('emitted-for-undecodable-single', 'q=%d' % rec['q'], 'record %d %r: %r / %r' % (i, name, top, ret))
        if ret is not None and not isinstance(ret, DecoderRaised) and isinstance(getattr(ret, 'ktraces', None), list):
            reported_lists.append([index_of.get(id(e), -1) for e in ret.ktraces])
        if scn.get('consumer_edits') and ret is not None and isinstance(getattr(ret, 'ktraces', None), list):
            # the caller uses the trace up: its record list is emptied in place (the list is the caller's; every other window
            # of the thread has its own)
            if reported and reported[-1][0] is ret:
                reported.pop()
            del ret.ktraces[:]
            bump('fault:consumer_edits_results')
        if len(m.open) < 64:
            sigs.add(m.signature())
        hist.append([i, kind, [c[:2] for c in top], None if ret is None else type(ret).__name__])
        if viols:
            break
    # crossing detection for the probe: two windows of one thread that overlap without nesting is what 'cross' ops make
    for th in scn['threads']:
        def has_cross(ops):
            for o in ops:
                if o['k'] == 'raw':
                    pass
            return False
    for t, snap, at in reported:
        if len(t.ktraces) != len(snap) or any(a is not b for a, b in zip(t.ktraces, snap)):
            bad('reported-trace-changed-later', 'ktraces', 'the trace reported at record %d had %d events then and has %d at the end of the stream' % (at, len(snap), len(t.ktraces)))
            break
    cat = worlds.catalog()
    pairs = {k for ks in cat['same_name_codes'] for k in ks}
    if any(r['id'] in pairs for r in stream):
        bump('probe:same_name_code_pair')
    if scn.get('paged') and not viols and len(stream) <= 3000:
        # metamorphic: the stream fed through feed_generator() in pages - each page a new generator over the same iterator,
        # read until the page's records are consumed and then closed while suspended at a yield - delivers the same windows
        bump('probe:paged_feed_generator')
        p2 = tool.tp_mod.TracesParser(dict(table), dict(tmap), {})
        ev2 = worlds.kevents_of(stream)
        idx2 = {id(e): i for i, e in enumerate(ev2)}
        consumed = [0]

        def source():
            for e in ev2:
                consumed[0] += 1
                yield e
        it = source()
        got2 = []
        from ..rng import Rng
        r9 = Rng(len(stream) * 7919 + 3)
        try:
            while consumed[0] < len(ev2):
                page_end = min(len(ev2), consumed[0] + r9.randint(1, 9))
                g = p2.feed_generator(it)
                for t in g:
                    got2.append((type(t).__name__, [idx2.get(id(e), -1) for e in t.ktraces] if isinstance(getattr(t, 'ktraces', None), list) else None))
                    if consumed[0] >= page_end:
                        break
                g.close()
        except Exception as e:
            got2 = ('raised', repr(e))
        want2 = [(h_[3], None) for h_ in hist if h_[3] is not None and h_[3] != 'DecoderRaised']
        if not any(h_[3] == 'DecoderRaised' for h_ in hist):
            if isinstance(got2, tuple) or [g_[0] for g_ in got2] != [w_[0] for w_ in want2]:
                bad('paged-feed-generator-differs', 'traces', 'record-by-record feed() yields %d traces %r..., paged feed_generator() %r' % (
                    len(want2), [w_[0] for w_ in want2][:6], got2 if isinstance(got2, tuple) else [g_[0] for g_ in got2][:6]))
    if scn.get('two_feeders') and not viols and len(stream) <= 3000:
        # metamorphic: one parser object fed through two routes at once - a feed_generator() is under way, and while it waits
        # for its next record other records (of any thread) reach the same parser through feed() directly - delivers the same
        bump('probe:two_feeders_on_one_parser')
        p3 = tool.tp_mod.TracesParser(dict(table), dict(tmap), {})
        ev3 = worlds.kevents_of(stream)
        idx3 = {id(e): i for i, e in enumerate(ev3)}
        from ..rng import Rng
        r8 = Rng(len(stream) * 104729 + 11)
        route = [r8.randrange(3) == 0 for _ in ev3]        # True: through the generator
        got3 = []

        def rep(t):
            return (type(t).__name__, [idx3.get(id(e), -1) for e in t.ktraces] if isinstance(getattr(t, 'ktraces', None), list) else None)

        def src():
            for e, via_gen in zip(ev3, route):
                if via_gen:
                    yield e
                else:
                    t_ = p3.feed(e)
                    if t_ is not None:
                        got3.append(rep(t_))
        try:
            for t in p3.feed_generator(src()):
                got3.append(rep(t))
        except Exception as e:
            got3 = ('raised', repr(e))
        if not any(h_[3] == 'DecoderRaised' for h_ in hist):
            want3 = [h_[3] for h_ in hist if h_[3] is not None]
            if isinstance(got3, tuple) or [g_[0] for g_ in got3] != want3:
                bad('two-feeders-differ', 'traces', 'record-by-record feed() yields %d traces %r..., generator plus direct feed() %r' % (
                    len(want3), want3[:6], got3 if isinstance(got3, tuple) else [g_[0] for g_ in got3][:6]))
            else:
                # and the same windows: compare the record lists of the traces with the single-route run's
                if [g_[1] for g_ in got3 if g_[1] is not None] != reported_lists:
                    bad('two-feeders-differ', 'windows', 'the record lists of the traces differ between the single-route and the two-route run')
    crossing = _count_crossing(stream)
    if crossing:
        bump('probe:crossing_pairs', crossing)
    if m.reopened:
        bump('probe:reopened_start', m.reopened)
    if fired and m.max_open:
        bump('probe:fault_in_open_window')
    bump('model_states', len(sigs))
    nontrivial = (len(threads_seen) >= 2 and switches >= 2) or m.stray or m.reopened or crossing or bool(fired)
    shape = (min(m.max_open, 4), min(m.stray, 2), min(m.reopened, 2), min(crossing, 2), tuple(sorted(fired)),
             len(threads_seen))
    return {'violations': viols, 'digest': digest_of(scn, hist), 'stats': stats, 'nontrivial': bool(nontrivial),
            'shape': repr(shape), 'extent': {'records_delivered': len(hist), 'scheduler_steps': len(stream),
                                             'mach_ticks': (stream[-1]['ts'] - stream[0]['ts']) if stream else 0}}


def _count_crossing(stream):
    """START a, START b, END a, END b on one thread (no nesting)."""
    n = 0
    open_by_t = {}
    for r in stream:
        st = open_by_t.setdefault(r['t'], [])
        if r['q'] == 1:
            st.append(r['id'])
        elif r['q'] == 2 and r['id'] in st:
            if st[-1] != r['id']:
                n += 1
            st.remove(r['id'])
    return n
