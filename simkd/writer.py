"""The simulated `ktrace dump` writer: serialises a thread map and record bytes as a v2 or v3 file, the way the
parser under test reads those containers.  Returns bytes plus a layout (list of (region name, start, end)) used by
the C06 crash-point enumeration to classify cut offsets."""
import plistlib
import struct

V2 = b'\x00\x02\xaa\x55'
V3 = b'\x00\x03\xaa\x55'
STACKSHOT_END = b'stackshot_out_fl'
TAG_THREADMAP = b'\x00\x1d\x00\x00\x00\x00\x00\x00'
TAG_EVENTS = b'\x00\x1e\x00\x00\x00\x00\x00\x00'
TAG_MORE = b'\x00\x20\x00\x00\x00\x00\x00\x00'
TAGS = {
    'dyld': b'\x01\x80\x00\x00\x00\x00\x00\x00',
    'codes': b'\x0f\x80\x00\x00\x00\x00\x00\x00',
    'processes': b'\x10\x80\x00\x00\x00\x00\x00\x00',
    'logs': b'\x11\x80\x00\x00\x00\x00\x00\x00',
    'strings': b'\x12\x80\x00\x00\x00\x00\x00\x00',
    'kexts': b'\x05\x80\x00\x00\x00\x00\x00\x00',
    'images': b'\x04\x80\x00\x00\x01\x00\x00\x00',
    'unknown': b'\x7e\x80\x00\x00\x00\x00\x00\x00',
}


def threadmap_entry(tid, pid, name_bytes):
    """tid u64, pid u32, char name[20] (NUL terminated by the kernel's strlcpy; bytes after the NUL arbitrary)."""
    assert len(name_bytes) == 20
    return struct.pack('<QI', tid & 0xffffffffffffffff, pid & 0xffffffff) + name_bytes


def name_field(name, tail=b''):
    raw = name.encode()[:19]
    field = raw + b'\x00' + tail
    field = field[:20]
    return field + b'\x00' * (20 - len(field))


def write_v2(tmap, pad, record_bytes, is64=1, freq=24000000, opaque12=b'', opaque256=b''):
    """tmap: list of (tid, pid, name20bytes).  opaque12 / opaque256: the header bytes no reader interprets (time of day
    of the capture, reserved words) - whatever the kernel left there."""
    layout = []
    out = bytearray(V2)
    layout.append(('version', 0, 4))
    o12 = (bytes(opaque12) + b'\x00' * 12)[:12]
    o256 = (bytes(opaque256) + b'\x00' * 0x100)[:0x100]
    out += struct.pack('<I', len(tmap)) + o12 + struct.pack('<IQ', is64, freq) + o256
    layout.append(('header', 4, len(out)))
    s = len(out)
    for tid, pid, name in tmap:
        out += threadmap_entry(tid, pid, name)
    layout.append(('threadmap', s, len(out)))
    s = len(out)
    out += b'\x00' * pad
    layout.append(('pad', s, len(out)))
    for i, rb in enumerate(record_bytes):
        s = len(out)
        out += rb
        layout.append(('record', s, len(out)))
    return bytes(out), layout


def _block(tag, payload, pad_to8=True, padbyte=b'\x00'):
    b = tag + struct.pack('<Q', len(payload)) + payload
    if pad_to8 and len(payload) % 8:
        b += padbyte * (8 - len(payload) % 8)
    return b


def _safe_filler(filler, forbidden):
    """The scanned tag must occur first exactly where the writer puts it: occurrences inside the filler are overwritten,
    and if filler + tag would contain an earlier, straddling occurrence the filler's last byte is changed.  Partial
    prefixes of the tag at the end of the filler (b'...stack' + b'stackshot_out_fl') are legal and kept."""
    f = bytes(filler)
    for tag in forbidden:
        while tag in f:
            f = f.replace(tag, b'\xaa' * len(tag))
        while f and (f + tag).find(tag) != len(f):
            f = f[:-1] + bytes([(f[-1] + 0x55) & 0xff])
    return f


def write_v3(tmap, chunks, blocks, cpu_info=None, filler1=b'', filler2=b'', gaps=None, pad_last=True,
             plist_fmt='binary', hdr=None, padbyte=b'\x00'):
    """chunks: list of lists of 64-byte records; blocks: list of (kind, payload-bytes).
    filler1: stackshot bytes before the stackshot end marker (may contain decoy thread-map/event tags);
    filler2: bytes between the marker and the thread-map tag; gaps[i]: bytes before the i-th event tag."""
    fmt = plistlib.FMT_BINARY if plist_fmt == 'binary' else plistlib.FMT_XML
    gaps = gaps or []
    layout = []
    out = bytearray(V3)
    layout.append(('version', 0, 4))
    h = hdr or {}
    cpu = plistlib.dumps(cpu_info if cpu_info is not None else {}, fmt=fmt)
    header = struct.pack('<IIQIIQQIIIII', h.get('tag', 0x1000), h.get('sub_tag', 3), h.get('length', 0),
                         h.get('numer', 125), h.get('denom', 3), h.get('timestamp', 1), h.get('secs', 1600000000),
                         h.get('usecs', 5), h.get('mw', 0), h.get('dst', 0), h.get('flags', 1), h.get('tag2', 0))
    header += struct.pack('<Q', len(cpu)) + cpu
    if len(header) % 8:
        header += b'\x00' * (8 - len(header) % 8)
    out += header
    out += b'\x00' * 4  # realign to 8 from the start of the file
    layout.append(('header', 4, len(out)))
    s = len(out)
    out += _safe_filler(filler1, [STACKSHOT_END]) + STACKSHOT_END
    layout.append(('stackshot', s, len(out)))
    s = len(out)
    out += _safe_filler(filler2, [TAG_THREADMAP]) + TAG_THREADMAP
    tm = b''.join(threadmap_entry(t, p, n) for t, p, n in tmap)
    out += struct.pack('<Q', len(tm)) + tm
    layout.append(('threadmap', s, len(out)))
    for ci, chunk in enumerate(chunks):
        s = len(out)
        gap = gaps[ci] if ci < len(gaps) else b''
        if ci > 0:
            out += TAG_MORE
        out += _safe_filler(gap, [TAG_EVENTS]) + TAG_EVENTS
        out += struct.pack('<Q', 64 * len(chunk)) + b'\x00' * 8
        layout.append(('chunkhdr', s, len(out)))
        for rb in chunk:
            s = len(out)
            out += rb
            layout.append(('record', s, len(out)))
    for bi, blk in enumerate(blocks):
        kind, payload = blk[0], blk[1]
        tag = blk[2] if len(blk) > 2 and blk[2] else TAGS[kind]       # (an unknown block may carry any tag no section uses)
        s = len(out)
        last = bi == len(blocks) - 1
        out += _block(tag, payload, pad_to8=(pad_last or not last), padbyte=padbyte or b'\x00')
        layout.append(('block:' + kind, s, len(out)))
    return bytes(out), layout


def plist_bytes(obj, plist_fmt='binary'):
    return plistlib.dumps(obj, fmt=plistlib.FMT_BINARY if plist_fmt == 'binary' else plistlib.FMT_XML)
