"""SimKernel: thread programs (ops) -> that thread's records; the kernel-side multi-record encoders; stream faults;
the seeded scheduler that merges per-thread record lists into one stream.

A record is a dict: {'t': tid, 'id': eventid, 'q': qualifier, 'a': [4 words], 'o': origin-string}.
Timestamps are assigned at merge time.  Nothing here imports the tool except to resolve names through the table
the scenario names (a plain dict)."""
from . import records

START, END, NONE, ALL = 1, 2, 0, 3
MAXPATH = 184


def chunk_text(raw, first_capacity):
    """Split NUL-padded bytes: first record holds first_capacity bytes, the rest 32 each."""
    chunks = [raw[:first_capacity]]
    pos = first_capacity
    while pos < len(raw):
        chunks.append(raw[pos:pos + 32])
        pos += 32
    return chunks


def enc_lookup(path_bytes, vnode, eventid, tid, origin):
    """kdebug_vfs_lookup: START record = vnode word + 24 path bytes; then 32-byte records; END on the last;
    START|END when the path fits in the first record."""
    raw = path_bytes[-MAXPATH:]
    recs = []
    q = START | (END if len(raw) <= 24 else 0)
    recs.append({'t': tid, 'id': eventid, 'q': q, 'a': [vnode] + records.text_words(raw[:24], 3), 'o': origin + '/c0'})
    left = len(raw) - 24
    pos = 24
    i = 1
    while left > 0:
        q = END if left <= 32 else NONE
        recs.append({'t': tid, 'id': eventid, 'q': q, 'a': records.text_words(raw[pos:pos + 32], 4),
                     'o': origin + '/c%d' % i})
        pos += 32
        left -= 32
        i += 1
    return recs


def enc_gstring(text_bytes, str_id, debugid, eventid, tid, origin):
    """kernel_debug_string_internal: first record = debugid, str_id, 16 text bytes; then 32-byte records."""
    raw = text_bytes
    recs = []
    q = START | (END if len(raw) <= 16 else 0)
    recs.append({'t': tid, 'id': eventid, 'q': q, 'a': [debugid, str_id] + records.text_words(raw[:16], 2),
                 'o': origin + '/c0'})
    written = 16
    i = 1
    while written < len(raw):
        q = END if written + 32 >= len(raw) else NONE
        recs.append({'t': tid, 'id': eventid, 'q': q, 'a': records.text_words(raw[written:written + 32], 4),
                     'o': origin + '/c%d' % i})
        written += 32
        i += 1
    return recs


def enc_simple_string(text_bytes, eventid, tid, origin):
    """kernel_debug_string_simple: 32 text bytes per record, START on the first, END on the last."""
    raw = text_bytes
    recs = []
    q = START | (END if len(raw) <= 32 else 0)
    recs.append({'t': tid, 'id': eventid, 'q': q, 'a': records.text_words(raw[:32], 4), 'o': origin + '/c0'})
    pos = 32
    i = 1
    while pos < len(raw):
        q = END if pos + 32 >= len(raw) else NONE
        recs.append({'t': tid, 'id': eventid, 'q': q, 'a': records.text_words(raw[pos:pos + 32], 4),
                     'o': origin + '/c%d' % i})
        pos += 32
        i += 1
    return recs


def expand(op, tid, ids, origin):
    """Deterministic expansion of one op into this thread's records.  `ids`: name -> eventid of the scenario's table.
    Ops naming something the table does not have expand to nothing."""
    k = op['k']
    if k == 'sys':
        eid = ids.get(op['name'])
        if eid is None:
            return []
        out = [{'t': tid, 'id': eid, 'q': START, 'a': list(op['s']), 'o': origin + '/S'}]
        for i, sub in enumerate(op.get('in', [])):
            out += expand(sub, tid, ids, origin + '.%d' % i)
        if not op.get('noend'):
            out.append({'t': tid, 'id': eid, 'q': END, 'a': list(op['e']), 'o': origin + '/E'})
        return out
    if k == 'one':
        eid = ids.get(op['name'])
        if eid is None:
            return []
        return [{'t': tid, 'id': eid, 'q': op.get('q', NONE), 'a': list(op['a']), 'o': origin + '/1'}]
    if k == 'raw':
        return [{'t': tid, 'id': op['id'] & 0xfffffffc, 'q': op.get('q', NONE), 'a': list(op['a']), 'o': origin + '/r'}]
    if k == 'lookup':
        eid = op.get('eid') or ids.get('VFS_LOOKUP')       # ('eid': another id that the scenario's table names VFS_LOOKUP as well)
        if eid is None:
            return []
        return _between(enc_lookup(op['path'].encode(), op['vnode'], eid, tid, origin), op, tid, ids, origin)
    if k == 'gstr':
        eid = ids.get('TRACE_STRING_GLOBAL')
        if eid is None:
            return []
        return _between(enc_gstring(op['text'].encode(), op['id'], op.get('dbgid', 0), eid, tid, origin), op, tid, ids,
                        origin)
    if k == 'tname':
        eid = ids.get('TRACE_STRING_THREADNAME_PREV' if op.get('prev') else 'TRACE_STRING_THREADNAME')
        if eid is None:
            return []
        return _between(enc_simple_string(op['text'].encode(), eid, tid, origin), op, tid, ids, origin)
    if k == 'seq':
        out = []
        for i, sub in enumerate(op['ops']):
            out += expand(sub, tid, ids, origin + '.%d' % i)
        return out
    raise ValueError('unknown op kind %r' % (k,))


def _between(chunks, op, tid, ids, origin):
    """Records of other emitters on the same thread (interrupt handlers, unrelated singles) placed between the
    records of one multi-record item: op['between'] = {str(chunk index): [ops]} inserted after that chunk."""
    btw = op.get('between')
    if not btw:
        return chunks
    out = []
    for i, c in enumerate(chunks):
        out.append(c)
        if i < len(chunks) - 1:
            for j, sub in enumerate(btw.get(str(i), [])):
                out += expand(sub, tid, ids, origin + '.b%d_%d' % (i, j))
    return out


def text_one(name, text, q=NONE):
    """A single-record text op (TRACE_STRING_NEWTHREAD/EXEC/PROC_EXIT): 32 NUL-padded bytes."""
    return {'k': 'one', 'name': name, 'q': q, 'a': records.text_words(text.encode()[:32], 4)}


def expand_threads(threads, ids):
    """threads: [{'tid':..,'ops':[...]}] -> list of per-thread record lists."""
    out = []
    for ti, th in enumerate(threads):
        recs = []
        for oi, op in enumerate(th['ops']):
            recs += expand(op, th['tid'], ids, 'T%d.%d' % (ti, oi))
        out.append(recs)
    return out


def merge(per_thread, schedule, t0=0x10000001, dts=None, tsmode=None):
    """The scheduler: step i lets runnable[schedule[i] % len(runnable)] emit its next record; an exhausted schedule
    means choice 0 (the lowest-indexed runnable thread runs on).  Returns the merged record list with timestamps
    ('ts') and the index of the emitting thread ('th')."""
    n = len(per_thread)
    pos = [0] * n
    out = []
    ts = t0
    step = 0
    # the runnable set as a Fenwick tree over thread indices: 'the k-th runnable thread' in O(log n), so that tens of
    # thousands of threads merge in reasonable time (same semantics as indexing the sorted list of runnable threads)
    size = 1
    while size < n + 1:
        size <<= 1
    tree = [0] * (size + 1)
    count = 0

    def add(i, d):
        i += 1
        while i <= size:
            tree[i] += d
            i += i & -i
    for i in range(n):
        if per_thread[i]:
            add(i, 1)
            count += 1

    def kth(k):          # 0-based
        idx = 0
        bit = size
        while bit:
            nxt = idx + bit
            if nxt <= size and tree[nxt] <= k:
                idx = nxt
                k -= tree[nxt]
            bit >>= 1
        return idx
    while count:
        c = schedule[step] if step < len(schedule) else 0
        who = kth(c % count)
        rec = dict(per_thread[who][pos[who]])
        pos[who] += 1
        if pos[who] >= len(per_thread[who]):
            add(who, -1)
            count -= 1
        rec['ts'] = ts
        rec['th'] = who
        out.append(rec)
        d = dts[step % len(dts)] if dts else 3
        ts += d
        step += 1
    if tsmode:
        # per-CPU buffers are merged by the kernel, and a merged dump is not always in timestamp order:
        #  'jitter' = unique but non-monotone timestamps; 'ties' = neighbouring records share a tick
        kind, vals = tsmode[0], tsmode[1]
        for i, rec in enumerate(out):
            v = vals[i % len(vals)] if vals else 0
            if kind == 'jitter':
                rec['ts'] = t0 + 64 + 16 * (i + v) + (i % 16)
            elif kind == 'ties':
                rec['ts'] = t0 + (i // (2 + (v % 3)))
            elif kind == 'frozen':
                rec['ts'] = t0          # a clock that does not advance during the capture: every record carries the same tick
    return out


def apply_faults(stream, faults, fired=None):
    """Stream-level faults (kernel side).  Each fault is counted in `fired` only when it removes a record."""
    fired = fired if fired is not None else {}
    out = list(stream)
    for f in faults:
        k = f['k']
        before = len(out)
        if k == 'wrap':
            out = out[f['n']:]
        elif k == 'drop':
            if 0 <= f['at'] < len(out):
                del out[f['at']]
        elif k == 'burst':
            th = f['th']
            idx = [i for i, r in enumerate(out) if r['th'] == th][f['from']:f['from'] + f['n']]
            out = [r for i, r in enumerate(out) if i not in set(idx)]
        elif k == 'kill':
            th = f['th']
            seen = 0
            keep = []
            for r in out:
                if r['th'] == th:
                    seen += 1
                    if seen > f['after']:
                        continue
                keep.append(r)
            out = keep
        elif k == 'tail':
            out = out[:max(0, len(out) - f['n'])]
        elif k == 'drop_origin':
            out = [r for r in out if r['o'] != f['o']]
        else:
            continue
        if len(out) != before:
            fired[k] = fired.get(k, 0) + 1
    return out


def to_bytes(rec, cpu=0):
    return records.pack(rec['ts'], rec['a'], rec['t'], rec['id'] | rec['q'], cpu)


SHAPES = ('uniform', 'rr1', 'rr2', 'rr3', 'serial', 'bursty')


def draw_schedule(rng, per_thread, shape):
    """A choice sequence of the given shape (the executor interprets it modulo the runnable set)."""
    total = sum(len(x) for x in per_thread)
    n = len(per_thread)
    if shape == 'serial' or n <= 1:
        return []
    if shape == 'uniform':
        return [rng.randrange(n) for _ in range(total)]
    if shape.startswith('rr'):
        # choice 0 keeps the lowest runnable; emulate round robin by cycling explicit indices
        q = int(shape[2:])
        seq = []
        cur = 0
        while len(seq) < total:
            seq += [cur] * q
            cur = (cur + 1) % n
        return seq[:total]
    # bursty: long runs with occasional switches
    seq = []
    cur = rng.randrange(n)
    while len(seq) < total:
        run = rng.randint(1, 6)
        seq += [cur] * run
        cur = rng.randrange(n)
    return seq[:total]
