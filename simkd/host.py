"""SimHost: the environment seam.  Builds substitute `errno`, `signal` and `socket` modules for a simulated host
platform and imports an independent copy of the pykdebugparser package against them (tool.reload_for_host)."""
import enum
import types

from . import tool
from .rng import Rng

DARWIN_ERRNO = {
    1: 'EPERM', 2: 'ENOENT', 3: 'ESRCH', 4: 'EINTR', 5: 'EIO', 6: 'ENXIO', 7: 'E2BIG', 8: 'ENOEXEC', 9: 'EBADF', 10: 'ECHILD',
    11: 'EDEADLK', 12: 'ENOMEM', 13: 'EACCES', 14: 'EFAULT', 15: 'ENOTBLK', 16: 'EBUSY', 17: 'EEXIST', 18: 'EXDEV', 19: 'ENODEV',
    20: 'ENOTDIR', 21: 'EISDIR', 22: 'EINVAL', 23: 'ENFILE', 24: 'EMFILE', 25: 'ENOTTY', 26: 'ETXTBSY', 27: 'EFBIG', 28: 'ENOSPC',
    29: 'ESPIPE', 30: 'EROFS', 31: 'EMLINK', 32: 'EPIPE', 33: 'EDOM', 34: 'ERANGE', 35: 'EAGAIN', 36: 'EINPROGRESS', 37: 'EALREADY',
    38: 'ENOTSOCK', 39: 'EDESTADDRREQ', 40: 'EMSGSIZE', 41: 'EPROTOTYPE', 42: 'ENOPROTOOPT', 43: 'EPROTONOSUPPORT',
    44: 'ESOCKTNOSUPPORT', 45: 'ENOTSUP', 46: 'EPFNOSUPPORT', 47: 'EAFNOSUPPORT', 48: 'EADDRINUSE', 49: 'EADDRNOTAVAIL',
    50: 'ENETDOWN', 51: 'ENETUNREACH', 52: 'ENETRESET', 53: 'ECONNABORTED', 54: 'ECONNRESET', 55: 'ENOBUFS', 56: 'EISCONN',
    57: 'ENOTCONN', 58: 'ESHUTDOWN', 59: 'ETOOMANYREFS', 60: 'ETIMEDOUT', 61: 'ECONNREFUSED', 62: 'ELOOP', 63: 'ENAMETOOLONG',
    64: 'EHOSTDOWN', 65: 'EHOSTUNREACH', 66: 'ENOTEMPTY', 67: 'EPROCLIM', 68: 'EUSERS', 69: 'EDQUOT', 70: 'ESTALE', 71: 'EREMOTE',
    72: 'EBADRPC', 73: 'ERPCMISMATCH', 74: 'EPROGUNAVAIL', 75: 'EPROGMISMATCH', 76: 'EPROCUNAVAIL', 77: 'ENOLCK', 78: 'ENOSYS',
    79: 'EFTYPE', 80: 'EAUTH', 81: 'ENEEDAUTH', 82: 'EPWROFF', 83: 'EDEVERR', 84: 'EOVERFLOW', 85: 'EBADEXEC', 86: 'EBADARCH',
    87: 'ESHLIBVERS', 88: 'EBADMACHO', 89: 'ECANCELED', 90: 'EIDRM', 91: 'ENOMSG', 92: 'EILSEQ', 93: 'ENOATTR', 94: 'EBADMSG',
    95: 'EMULTIHOP', 96: 'ENODATA', 97: 'ENOLINK', 98: 'ENOSR', 99: 'ENOSTR', 100: 'EPROTO', 101: 'ETIME', 102: 'EOPNOTSUPP',
    103: 'ENOPOLICY', 104: 'ENOTRECOVERABLE', 105: 'EOWNERDEAD', 106: 'EQFULL'}
DARWIN_SIGNALS = {1: 'SIGHUP', 2: 'SIGINT', 3: 'SIGQUIT', 4: 'SIGILL', 5: 'SIGTRAP', 6: 'SIGABRT', 7: 'SIGEMT', 8: 'SIGFPE',
                  9: 'SIGKILL', 10: 'SIGBUS', 11: 'SIGSEGV', 12: 'SIGSYS', 13: 'SIGPIPE', 14: 'SIGALRM', 15: 'SIGTERM', 16: 'SIGURG',
                  17: 'SIGSTOP', 18: 'SIGTSTP', 19: 'SIGCONT', 20: 'SIGCHLD', 21: 'SIGTTIN', 22: 'SIGTTOU', 23: 'SIGIO', 24: 'SIGXCPU',
                  25: 'SIGXFSZ', 26: 'SIGVTALRM', 27: 'SIGPROF', 28: 'SIGWINCH', 29: 'SIGINFO', 30: 'SIGUSR1', 31: 'SIGUSR2'}
DARWIN_AF = {0: 'AF_UNSPEC', 1: 'AF_UNIX', 2: 'AF_INET', 11: 'AF_SNA', 12: 'AF_DECnet', 16: 'AF_APPLETALK', 17: 'AF_ROUTE',
             18: 'AF_LINK', 23: 'AF_IPX', 30: 'AF_INET6', 32: 'AF_SYSTEM'}
DARWIN_SOCK = {1: 'SOCK_STREAM', 2: 'SOCK_DGRAM', 3: 'SOCK_RAW', 4: 'SOCK_RDM', 5: 'SOCK_SEQPACKET'}
DARWIN_SOL_SOCKET = 0xffff
# numbers whose Darwin names are beyond doubt (aliases accepted): the secondary, spot oracle
SPOT_ERRNO = {1: ['EPERM'], 2: ['ENOENT'], 11: ['EDEADLK'], 35: ['EAGAIN', 'EWOULDBLOCK'], 36: ['EINPROGRESS'], 45: ['ENOTSUP'],
              48: ['EADDRINUSE'], 60: ['ETIMEDOUT'], 61: ['ECONNREFUSED'], 62: ['ELOOP'], 63: ['ENAMETOOLONG'], 66: ['ENOTEMPTY'],
              78: ['ENOSYS'], 89: ['ECANCELED'], 102: ['EOPNOTSUPP']}
SPOT_ERRNO = {k: [v] for k, v in DARWIN_ERRNO.items()}
SPOT_ERRNO.update({35: ['EAGAIN', 'EWOULDBLOCK'], 45: ['ENOTSUP'], 102: ['EOPNOTSUPP'], 106: ['EQFULL', 'ELAST']})
_SPOT_SIGNAL_OLD = {7: ['SIGEMT'], 10: ['SIGBUS'], 12: ['SIGSYS'], 16: ['SIGURG'], 17: ['SIGSTOP'], 20: ['SIGCHLD'], 23: ['SIGIO'],
               29: ['SIGINFO'], 30: ['SIGUSR1'], 31: ['SIGUSR2']}
SPOT_SIGNAL = {k: [v] for k, v in DARWIN_SIGNALS.items()}
SPOT_SIGNAL.update({6: ['SIGABRT', 'SIGIOT']})
SPOT_AF = {1: ['AF_UNIX', 'AF_LOCAL'], 2: ['AF_INET'], 30: ['AF_INET6'], 32: ['AF_SYSTEM'], 17: ['AF_ROUTE'], 18: ['AF_LINK']}
SPOT_SOCK = {1: ['SOCK_STREAM'], 2: ['SOCK_DGRAM'], 3: ['SOCK_RAW']}

HOSTS = ['linux-real', 'darwin', 'scrambled-1', 'scrambled-2', 'sparse']


def _tables(host):
    """(errno map, signals map, af map, sock map, sol_socket) for a simulated host."""
    if host == 'darwin':
        return dict(DARWIN_ERRNO), dict(DARWIN_SIGNALS), dict(DARWIN_AF), dict(DARWIN_SOCK), DARWIN_SOL_SOCKET
    if host.startswith('scrambled'):
        r = Rng(int(host.split('-')[1]) * 7919)
        def scramble(d):
            keys = sorted(d)
            vals = [d[k] for k in keys]
            r.shuffle(vals)
            return dict(zip(keys, vals))
        return (scramble(DARWIN_ERRNO), scramble(DARWIN_SIGNALS), scramble(DARWIN_AF), scramble(DARWIN_SOCK),
                r.pick([1, 6, 0xfff]))
    if host == 'sparse':
        return ({k: v for k, v in DARWIN_ERRNO.items() if k in (1, 2, 13)}, {k: v for k, v in DARWIN_SIGNALS.items() if k in (2, 9, 15)},
                {k: v for k, v in DARWIN_AF.items() if k in (1, 2)}, {k: v for k, v in DARWIN_SOCK.items() if k in (1, 2)}, 7)
    raise KeyError(host)


def fake_modules(host):
    em, sm, am, km, sol = _tables(host)
    errno_mod = types.ModuleType('errno')
    errno_mod.errorcode = dict(em)
    for k, v in em.items():
        setattr(errno_mod, v, k)
    signal_mod = types.ModuleType('signal')
    signal_mod.Signals = enum.IntEnum('Signals', {v: k for k, v in sm.items()})
    # the other host-specific constants a decoder could reach for
    signal_mod.NSIG = {'darwin': 32, 'sparse': 16}.get(host, 65)
    signal_mod.SIGRTMIN, signal_mod.SIGRTMAX = (34, 64) if host != 'darwin' else (0, 0)
    for k, v in sm.items():
        setattr(signal_mod, v, signal_mod.Signals(k))
    socket_mod = types.ModuleType('socket')
    socket_mod.AddressFamily = enum.IntEnum('AddressFamily', {v: k for k, v in am.items()})
    socket_mod.SocketKind = enum.IntEnum('SocketKind', {v: k for k, v in km.items()})
    socket_mod.SOL_SOCKET = sol
    if host != 'darwin':
        socket_mod.SOCK_NONBLOCK, socket_mod.SOCK_CLOEXEC = (0x800, 0x80000) if host != 'sparse' else (0x4, 0x10000000)
    # protocol numbers are the same everywhere, the set of NAMES a host's module defines is not
    darwin_proto = {0: 'IPPROTO_IP', 1: 'IPPROTO_ICMP', 2: 'IPPROTO_IGMP', 3: 'IPPROTO_GGP', 4: 'IPPROTO_IPV4', 6: 'IPPROTO_TCP', 8: 'IPPROTO_EGP',
                    12: 'IPPROTO_PUP', 17: 'IPPROTO_UDP', 22: 'IPPROTO_IDP', 29: 'IPPROTO_TP', 36: 'IPPROTO_XTP', 41: 'IPPROTO_IPV6', 43: 'IPPROTO_ROUTING',
                    44: 'IPPROTO_FRAGMENT', 46: 'IPPROTO_RSVP', 47: 'IPPROTO_GRE', 50: 'IPPROTO_ESP', 51: 'IPPROTO_AH', 58: 'IPPROTO_ICMPV6',
                    59: 'IPPROTO_NONE', 60: 'IPPROTO_DSTOPTS', 63: 'IPPROTO_HELLO', 77: 'IPPROTO_ND', 80: 'IPPROTO_EON', 103: 'IPPROTO_PIM',
                    108: 'IPPROTO_IPCOMP', 132: 'IPPROTO_SCTP', 255: 'IPPROTO_RAW', 256: 'IPPROTO_MAX'}
    keep = {'darwin': lambda k: True, 'sparse': lambda k: k in (0, 6, 17)}.get(host, lambda k: k % 3 != 1)
    for k, v in darwin_proto.items():
        if keep(k):
            setattr(socket_mod, v, k)
    socket_mod.AF_MAX = {'darwin': 41}.get(host, 46)
    socket_mod.SOMAXCONN = {'darwin': 128}.get(host, 4096)
    for k, v in am.items():
        setattr(socket_mod, v, socket_mod.AddressFamily(k))
    for k, v in km.items():
        setattr(socket_mod, v, socket_mod.SocketKind(k))
    mods = {'errno': errno_mod, 'signal': signal_mod, 'socket': socket_mod}
    ident = HOST_OS.get(host)
    if ident is not None:
        # the os / sys / platform modules as the library's copy imports them: everything delegates to the real module, except
        # what identifies the operating system and its text encodings
        import ntpath
        import os as real_os
        import platform as real_platform
        import posixpath
        import sys as real_sys
        osname, plat, system = ident
        enc = HOST_ENC.get(host) or ('utf-8', 'surrogateescape')

        def proxy(name, real, overrides):
            m = types.ModuleType(name)
            m.__dict__.update(overrides)
            m.__dict__['__getattr__'] = lambda attr: getattr(real, attr)
            return m
        path_mod = proxy('posixpath', posixpath, {'normcase': ntpath.normcase} if osname == 'nt' else {})
        seek = {'darwin': {'SEEK_HOLE': 3, 'SEEK_DATA': 4}, 'scrambled-2': {'SEEK_HOLE': 4, 'SEEK_DATA': 3}}.get(host)
        os_over = {'name': osname, 'path': path_mod}
        hidden = set()
        if seek:
            os_over.update(seek)
        else:
            hidden = {'SEEK_HOLE', 'SEEK_DATA'}       # a host that has neither
        mods['os'] = proxy('os', real_os, os_over)
        if hidden:
            def os_getattr(attr, _real=real_os, _hidden=hidden):
                if attr in _hidden:
                    raise AttributeError(attr)
                return getattr(_real, attr)
            mods['os'].__dict__['__getattr__'] = os_getattr
        if osname == 'nt':
            mods['os'].__dict__['linesep'] = '\r\n'
        if host == 'scrambled-2':
            # a big-endian host: formats without an explicit byte order ('4Q', '@..', '=..') pack and unpack big-endian there
            import struct as real_struct

            def be(fmt):
                if isinstance(fmt, bytes):
                    fmt = fmt.decode()
                if fmt[:1] in '@=':
                    return '>' + fmt[1:]
                if fmt[:1] in '<>!':
                    return fmt
                return '>' + fmt
            st_over = {'pack': lambda fmt, *a: real_struct.pack(be(fmt), *a), 'unpack': lambda fmt, b: real_struct.unpack(be(fmt), b),
                       'unpack_from': lambda fmt, b, offset=0: real_struct.unpack_from(be(fmt), b, offset),
                       'pack_into': lambda fmt, buf, off, *a: real_struct.pack_into(be(fmt), buf, off, *a),
                       'iter_unpack': lambda fmt, b: real_struct.iter_unpack(be(fmt), b), 'calcsize': lambda fmt: real_struct.calcsize(be(fmt)),
                       'Struct': lambda fmt: real_struct.Struct(be(fmt))}
            mods['struct'] = proxy('struct', real_struct, st_over)
        # resource-limit numbers differ between systems (and a Windows interpreter has no such module at all)
        darwin_rl = {'RLIMIT_CPU': 0, 'RLIMIT_FSIZE': 1, 'RLIMIT_DATA': 2, 'RLIMIT_STACK': 3, 'RLIMIT_CORE': 4, 'RLIMIT_AS': 5, 'RLIMIT_RSS': 5,
                     'RLIMIT_MEMLOCK': 6, 'RLIMIT_NPROC': 7, 'RLIMIT_NOFILE': 8, 'RLIM_NLIMITS': 9, 'RLIM_INFINITY': (1 << 63) - 1}
        if osname != 'nt':
            try:
                import resource as real_resource
                rl = dict(darwin_rl) if host == 'darwin' else {k: (v + 3) % 9 if k.startswith('RLIMIT_') else v for k, v in darwin_rl.items()}
                mods['resource'] = proxy('resource', real_resource, rl)
            except ImportError:
                pass
        # the C data model: a long is 32 bits on the 'nt' hosts
        import ctypes as real_ctypes
        ct_over = {'c_long': real_ctypes.c_int32, 'c_ulong': real_ctypes.c_uint32} if osname == 'nt' else {}
        mods['ctypes'] = proxy('ctypes', real_ctypes, ct_over)
        mods['sys'] = proxy('sys', real_sys, {'platform': plat, 'getfilesystemencoding': lambda: enc[0],
                                             'getfilesystemencodeerrors': lambda: enc[1]})
        mods['platform'] = proxy('platform', real_platform, {'system': lambda: system})
        if 'struct' in mods:
            mods['sys'].__dict__['byteorder'] = 'big'
    return mods


_copies = {}


def tool_for(host):
    """Independent copy of the tool's modules for a simulated host (cached per process)."""
    if host == 'linux-real':
        return {'tp': tool.tp_mod, 'pk': tool.pk_mod, 'bsd': tool.bsd}
    if host not in _copies:
        with host_environment(host):       # what the library reads from its host when it is imported is the simulated host's
            mods = tool.reload_for_host(fake_modules(host))
        _copies[host] = {'tp': mods['pykdebugparser.traces_parser'], 'pk': mods['pykdebugparser.pykdebugparser'],
                         'bsd': mods['pykdebugparser.trace_handlers.bsd']}
    return _copies[host]


# ---- the rest of a host: its time zone and files at well-known system paths -------------------------------------------
HOST_TZ = {'linux-real': None, 'darwin': 'PST8PDT', 'scrambled-1': 'XJT-9', 'scrambled-2': 'XNP-5:45', 'sparse': 'UTC0'}
# the host's text encodings (file-system / locale): what an interpreter on that host reports
HOST_ENC = {'linux-real': None, 'darwin': ('utf-8', 'surrogateescape'), 'scrambled-1': ('ascii', 'strict'),
            'scrambled-2': ('latin-1', 'surrogateescape'), 'sparse': ('cp1252', 'replace')}
HOST_OS = {'linux-real': None, 'darwin': ('posix', 'darwin', 'Darwin'), 'scrambled-1': ('nt', 'win32', 'Windows'),
           'scrambled-2': ('posix', 'freebsd14', 'FreeBSD'), 'sparse': ('nt', 'win32', 'Windows')}
SYSTEM_TRACE_CODES = '/usr/share/misc/trace.codes'
EXTRA_CODES = '0xf1230000\tHOST_ONLY_CODE_A\n0xf1230004\tHOST_ONLY_CODE_B\n0x40c0014\tHOST_RENAMED_open\n'


class host_environment:
    """Context manager: the process looks like it runs on the simulated host - TZ set (POSIX form, no tz database needed),
    the file-system / locale encodings the interpreter reports, and on hosts that ship it a system-wide trace.codes file visible through open / os.path / pathlib."""

    def __init__(self, host):
        self.host = host

    def __enter__(self):
        import builtins
        import io as _io
        import os
        import pathlib
        import time
        self._saved_tz = os.environ.get('TZ')
        tz = HOST_TZ.get(self.host)
        if tz is not None:
            os.environ['TZ'] = tz
            time.tzset()
        self._patched = []
        enc = HOST_ENC.get(self.host)
        if enc is not None:
            import locale
            import sys
            name, errors = enc
            subs = [(sys, 'getfilesystemencoding', lambda: name), (sys, 'getfilesystemencodeerrors', lambda: errors),
                    (locale, 'getpreferredencoding', lambda do_setlocale=True: name), (locale, 'getencoding', lambda: name),
                    (os, 'fsdecode', lambda b: b if isinstance(b, str) else bytes(os.fspath(b)).decode(name, errors)),
                    (os, 'fsencode', lambda t: t if isinstance(t, bytes) else os.fspath(t).encode(name, errors))]
            for obj, attr, fn in subs:
                if hasattr(obj, attr):
                    self._patched.append((obj, attr, getattr(obj, attr)))
                    setattr(obj, attr, fn)
        ident = HOST_OS.get(self.host)
        if ident is not None:
            # which operating system the interpreter says it runs on (the modules already imported stay what they are)
            import ntpath
            import platform
            import sys
            osname, plat, system = ident
            # (os.name / sys.platform are what the library's own copy sees through its substituted os / sys modules, see
            #  fake_modules; faking them process-wide would break the standard library itself, e.g. pathlib)
            subs = []
            if osname == 'nt':
                subs += [(os.path, 'normcase', ntpath.normcase)]
            for obj, attr, val in subs:
                self._patched.append((obj, attr, getattr(obj, attr)))
                setattr(obj, attr, val)
        if self.host in ('darwin', 'scrambled-2'):
            real_open, real_exists, real_isfile = builtins.open, os.path.exists, os.path.isfile
            p_exists, p_isfile, p_open, p_read = pathlib.Path.exists, pathlib.Path.is_file, pathlib.Path.open, pathlib.Path.read_text

            def is_it(p):
                try:
                    return os.fspath(p) == SYSTEM_TRACE_CODES
                except TypeError:
                    return False

            def fake_open(file, mode='r', *a, **k):
                if is_it(file):
                    return _io.BytesIO(EXTRA_CODES.encode()) if 'b' in mode else _io.StringIO(EXTRA_CODES)
                return real_open(file, mode, *a, **k)
            builtins.open = fake_open
            os.path.exists = lambda p: True if is_it(p) else real_exists(p)
            os.path.isfile = lambda p: True if is_it(p) else real_isfile(p)
            pathlib.Path.exists = lambda self_, *a, **k: True if is_it(self_) else p_exists(self_, *a, **k)
            pathlib.Path.is_file = lambda self_, *a, **k: True if is_it(self_) else p_isfile(self_, *a, **k)
            pathlib.Path.open = lambda self_, mode='r', *a, **k: fake_open(self_, mode) if is_it(self_) else p_open(self_, mode, *a, **k)
            pathlib.Path.read_text = lambda self_, *a, **k: EXTRA_CODES if is_it(self_) else p_read(self_, *a, **k)
            self._patched += [(builtins, 'open', real_open), (os.path, 'exists', real_exists), (os.path, 'isfile', real_isfile),
                             (pathlib.Path, 'exists', p_exists), (pathlib.Path, 'is_file', p_isfile), (pathlib.Path, 'open', p_open),
                             (pathlib.Path, 'read_text', p_read)]
        return self

    def __exit__(self, *exc):
        import os
        import time
        for obj, name, val in self._patched:
            setattr(obj, name, val)
        if self._saved_tz is None:
            os.environ.pop('TZ', None)
        else:
            os.environ['TZ'] = self._saved_tz
        time.tzset()
        return False
