"""Access to the real tool, imported from /repo's working tree (never a copy, never a stub)."""
import importlib
import os
import sys

REPO = os.environ.get('VERIF_REPO', '/repo')
if sys.path[0] != REPO:
    if REPO in sys.path:
        sys.path.remove(REPO)
    sys.path.insert(0, REPO)
sys.dont_write_bytecode = True

import pykdebugparser  # noqa: E402

assert os.path.realpath(os.path.dirname(pykdebugparser.__file__)) == os.path.realpath(os.path.join(REPO, 'pykdebugparser')), \
    'pykdebugparser not imported from ' + REPO

from pykdebugparser import kevent as kevent_mod  # noqa: E402
from pykdebugparser import kd_buf_parser as kdbuf_mod  # noqa: E402
from pykdebugparser import traces_parser as tp_mod  # noqa: E402
from pykdebugparser import callstacks_parser as cs_mod  # noqa: E402
from pykdebugparser import pykdebugparser as pk_mod  # noqa: E402
from pykdebugparser import trace_codes as tc_mod  # noqa: E402
from pykdebugparser import os_log_event as log_mod  # noqa: E402
from pykdebugparser.trace_handlers import bsd, dyld, fsystem, mach, perf, trace, turnstile  # noqa: E402

FAMILIES = {'bsd': bsd, 'dyld': dyld, 'fsystem': fsystem, 'mach': mach, 'perf': perf, 'trace': trace,
            'turnstile': turnstile}

_codes = None
_ids = None

TRACE_DOMAIN_NAMES = (
    'TRACE_DATA_NEWTHREAD', 'TRACE_DATA_EXEC', 'TRACE_DATA_THREAD_TERMINATE', 'TRACE_DATA_THREAD_TERMINATE_PID',
    'TRACE_STRING_GLOBAL', 'TRACE_STRING_NEWTHREAD', 'TRACE_STRING_EXEC', 'TRACE_STRING_PROC_EXIT',
    'TRACE_STRING_THREADNAME', 'TRACE_STRING_THREADNAME_PREV')


def codes():
    """The bundled table (fresh dict each call, so no run can leak table edits into the next)."""
    global _codes
    if _codes is None:
        _codes = dict(tc_mod.default_trace_codes())      # the harness's own snapshot, never the object the library handed out
    return dict(_codes)


def ids_by_name(table=None):
    global _ids
    if table is None:
        if _ids is None:
            _ids = {}
            for k, v in codes().items():
                _ids.setdefault(v, k)
        return _ids
    out = {}
    for k, v in table.items():
        out.setdefault(v, k)
    return out


def handler_names():
    """Decodable names in table order, per family; read from the live tables."""
    out = []
    for fam, mod in FAMILIES.items():
        for name in mod.handlers:
            out.append((fam, name))
    return out


def all_handlers():
    h = {}
    for mod in (bsd, dyld, fsystem, mach, perf, trace, turnstile):
        h.update(mod.handlers)
    return h


def make_table(spec):
    """spec: 'bundled' or {'remap': {name: new_id_hex}} -> (table dict id->name)."""
    t = codes()
    if spec == 'bundled' or spec is None:
        return t
    remap = spec.get('remap', {})
    for name, newid in remap.items():
        for k in [k for k, v in t.items() if v == name]:
            del t[k]
        t[int(newid)] = name
    for k in spec.get('drop', []):
        t.pop(int(k), None)
    for k, v in spec.get('extra', {}).items():       # ids the caller's table names in addition
        t[int(k)] = v
    return t


def kevent(buf):
    return kevent_mod.from_kd_buf(buf)


def reload_for_host(host_modules):
    """Import an independent copy of the package with substitute errno/signal/socket modules.

    Returns a dict of the freshly imported modules.  Third-party deps keep the real modules (they were
    imported before).  The original package modules are restored in sys.modules afterwards."""
    saved = {k: v for k, v in sys.modules.items() if k == 'pykdebugparser' or k.startswith('pykdebugparser.')}
    saved_host = {k: sys.modules.get(k) for k in host_modules}
    for k in saved:
        del sys.modules[k]
    try:
        for k, m in host_modules.items():
            sys.modules[k] = m
        pkg = importlib.import_module('pykdebugparser.pykdebugparser')
        mods = {k: v for k, v in sys.modules.items() if k == 'pykdebugparser' or k.startswith('pykdebugparser.')}
        return mods
    finally:
        for k in [k for k in sys.modules if k == 'pykdebugparser' or k.startswith('pykdebugparser.')]:
            del sys.modules[k]
        sys.modules.update(saved)
        for k, m in saved_host.items():
            if m is None:
                sys.modules.pop(k, None)
            else:
                sys.modules[k] = m
